// Native replay for unit sepdom.  The contracts speak about trees through uninterpreted observers of the
// root pointer, so a counterexample carries only the FLAGS of the operands, not their trees; a replay is
// therefore possible only where the flags alone decide the verdict.  Registered: dd_equal (the equality of
// discrete_domain): an operand whose witness says "not top" is rebuilt as the EMPTY set (the null tree the
// counterexample uses), a top operand as discrete_domain::top(); the postcondition is the contract's:
// equal iff both top, or neither top and the sets are equal.  dd_union / dd_inter / dd_union_with likewise (flags only).
#include <crab/domains/discrete_domains.hpp>
#include "replay.h"
struct K : public crab::indexable {
  ikos::index_t i;
  K(ikos::index_t x) : i(x) {}
  ikos::index_t index() const override { return i; }
  void write(crab::crab_os &o) const override {}
};
typedef ikos::discrete_domain<K> DD;
static DD mk(const Wit &w, const char *n) { return w.u(std::string(n) + ".f0") ? DD::top() : DD::bottom(); }
REPLAY(dd_equal) {
  DD a = mk(wit, "a"), b = mk(wit, "b");
  printf("  self: is_top=%d is_bottom=%d   other: is_top=%d is_bottom=%d\n", a.is_top(), a.is_bottom(), b.is_top(), b.is_bottom());
  bool r = (a == b);
  bool spec = (a.is_top() && b.is_top()) || (!a.is_top() && !b.is_top() /* both the empty set */);
  printf("  self == other returns %d, the same set of elements: %d\n", r, spec);
  return r == spec;
}
REPLAY(dd_leq) {
  DD a = mk(wit, "a"), b = mk(wit, "b");
  bool r = (a <= b);
  bool spec = b.is_top() || !a.is_top();      // non-top operands are rebuilt as the empty set
  printf("  self <= other returns %d, expected %d\n", r, spec);
  return r == spec;
}
// union / intersection: with operands rebuilt from the flags (top, or the empty set) the result must be top exactly when
// either / both operands are, and the empty set otherwise
REPLAY(dd_union) {
  DD a = mk(wit, "a"), b = mk(wit, "b");
  DD r = a | b;
  bool spec_top = a.is_top() || b.is_top();
  printf("  self | other: is_top=%d is_bottom=%d, expected is_top=%d is_bottom=%d\n", r.is_top(), r.is_bottom(), spec_top, !spec_top);
  return r.is_top() == spec_top && r.is_bottom() == !spec_top;
}
REPLAY(dd_inter) {
  DD a = mk(wit, "a"), b = mk(wit, "b");
  DD r = a & b;
  bool spec_top = a.is_top() && b.is_top();
  printf("  self & other: is_top=%d is_bottom=%d, expected is_top=%d is_bottom=%d\n", r.is_top(), r.is_bottom(), spec_top, !spec_top);
  return r.is_top() == spec_top && r.is_bottom() == !spec_top;
}
REPLAY(dd_union_with) {
  DD a = mk(wit, "a"), b = mk(wit, "b");
  bool spec_top = a.is_top() || b.is_top();
  a |= b;
  printf("  self |= other: is_top=%d is_bottom=%d, expected is_top=%d is_bottom=%d\n", a.is_top(), a.is_bottom(), spec_top, !spec_top);
  return a.is_top() == spec_top && a.is_bottom() == !spec_top;
}
int main(int argc, char **argv) { return replay_main(argc, argv); }
