/* Run-time model of unit sepdom: models/rt.c, or - for the checks that run real libstdc++ containers in line (project:
 * std::vector copy / reserve / push_back, std::sort) and say defs=DETALLOC - deterministic allocation as in
 * models/rt_detalloc.c (see the comment there: with rt.c's malloc the result is `fail ? NULL : &object` and every later
 * access to the vector's storage becomes a byte extraction at a symbolic offset).  Same assumption as rt.c: operator new
 * does not fail.
 * One step further than rt_detalloc.c: project() reserves room for size() keys, a SYMBOLIC number (it comes out of the
 * assumed size() contract), and a heap object of symbolic size makes every access to it an unbounded-array constraint
 * (measured: SSA conversion 160 s, then the SAT back end runs out of memory).  So a request of at most NEW_BLOCK bytes
 * gets a fresh object of exactly NEW_BLOCK bytes.  A program cannot observe the size of the block it was given, so its
 * behaviour is unchanged; what is lost is only that cbmc's bounds check no longer reports an access beyond the requested
 * size that stays inside the block (a defect inside libstdc++'s std::vector, not in crab).  Larger requests are exact. */
#ifdef DETALLOC
#ifndef NEW_BLOCK
#define NEW_BLOCK 128
#endif
#define _Znwm rtc_Znwm_malloc_unused
#define _Znam rtc_Znam_malloc_unused
#include "rt.c"
#undef _Znwm
#undef _Znam
void *_Znwm(unsigned long n){ if (n <= NEW_BLOCK) return __CPROVER_allocate(NEW_BLOCK, 0); return __CPROVER_allocate(n, 0); }
void *_Znam(unsigned long n){ if (n <= NEW_BLOCK) return __CPROVER_allocate(NEW_BLOCK, 0); return __CPROVER_allocate(n, 0); }
#else
#include "rt.c"
#endif
