/* Iteration, project, rename in the property's own terms — C19, first sentence: "after any sequence of set, forget, ...
 * rename and project, looking up any variable gives the pointwise result, iteration lists exactly the non-top bindings
 * once".
 * PROVED: the real separate_domain::project (both strategies: copy the kept keys / std::sort + std::binary_search over the
 * tree iteration + remove), separate_domain::begin / end, with the real libstdc++ std::vector, std::sort,
 * std::binary_search IN LINE (bounded: unwound).
 * ASSUMED (dropped bodies, contracts below never enforced): the tree iterator, as a LISTING of the finite map. */

/* ===================== ASSUMED: patricia_tree<K,GV>::iterator as a listing of the finite map ===================== */
#define IT_NEQ _ZN5boost9iteratorsneIN4ikos13patricia_treeI1K2GVSt8equal_toIS5_EE8iteratorENS2_19patricia_trees_impl4treeIS4_S5_S7_E9binding_tENS0_21forward_traversal_tagESD_lS9_SD_SE_SD_lEENS0_6detail23enable_if_interoperableIT_T4_NS_3mpl6apply2INSF_12always_bool2ESH_SI_E4typeEE4typeERKNS0_15iterator_facadeISH_T0_T1_T2_T3_EERKNSQ_ISI_T5_T6_T7_T8_EE
#define IT_ARROW _ZNK5boost9iterators6detail20iterator_facade_baseIN4ikos13patricia_treeI1K2GVSt8equal_toIS6_EE8iteratorENS3_19patricia_trees_impl4treeIS5_S6_S8_E9binding_tENS0_21forward_traversal_tagESE_lLb0ELb0EEptEv
#define IT_INC _ZN5boost9iterators6detail20iterator_facade_baseIN4ikos13patricia_treeI1K2GVSt8equal_toIS6_EE8iteratorENS3_19patricia_trees_impl4treeIS5_S6_S8_E9binding_tENS0_21forward_traversal_tagESE_lLb0ELb0EEppEv
/* begin(): position 0 of the listing of this tree.  Assumed fact "every binding is listed" (at the ghost key g_k): a bound
 * key has a position below size() and is the key listed there. */
void PTK(5beginEv)(IT *ret, PT *self)
__CPROVER_requires(FRESH(pt_begin, ret, sizeof(IT)) && FRESH(pt_begin, self, sizeof(PT)))
__CPROVER_assigns(*ret)
__CPROVER_ensures(IT_ROOT(ret) == ROOT(*self) && IT_POS(ret) == 0)
__CPROVER_ensures(!M_has(ROOT(*self), g_k) || (M_idx(ROOT(*self), g_k) < M_size(ROOT(*self)) && M_key(ROOT(*self), M_idx(ROOT(*self), g_k)) == g_k));
/* end(): the iterator that belongs to no tree */
void PTK(3endEv)(IT *ret, PT *self)
__CPROVER_requires(FRESH(pt_end, ret, sizeof(IT)) && FRESH(pt_end, self, sizeof(PT)))
__CPROVER_assigns(*ret)
__CPROVER_ensures(IT_ROOT(ret) == (void *)0 && IT_POS(ret) == 0);
/* it1 != it2 */
unsigned char IT_NEQ(ITF *lhs, ITF *rhs)
__CPROVER_requires(FRESH(it_neq, lhs, sizeof(IT)) && FRESH(it_neq, rhs, sizeof(IT)))
__CPROVER_assigns()
__CPROVER_ensures(__CPROVER_return_value == (IT_EQ(lhs, rhs) ? 0 : 1));
/* it->first / it->second: only before the end (the real code exits with CRAB_ERROR on an empty iterator).  Assumed facts
 * "only bindings are listed, with their values" and "each once" (the listed key is bound, its position is this one). */
BND IT_ARROW(ITB *self)
__CPROVER_requires(FRESH(it_arrow, self, sizeof(IT)) && !IT_ATEND(self))
__CPROVER_assigns()
__CPROVER_ensures(__CPROVER_is_fresh(__CPROVER_return_value.f0, sizeof(K)) && __CPROVER_is_fresh(__CPROVER_return_value.f1, sizeof(GV)))
__CPROVER_ensures(K_OK(__CPROVER_return_value.f0))
__CPROVER_ensures(KIDX(__CPROVER_return_value.f0) == M_key(IT_ROOT(self), IT_POS(self)) && M_has(IT_ROOT(self), M_key(IT_ROOT(self), IT_POS(self))))
__CPROVER_ensures(VID(__CPROVER_return_value.f1) == M_val(IT_ROOT(self), M_key(IT_ROOT(self), IT_POS(self))))
__CPROVER_ensures(M_idx(IT_ROOT(self), M_key(IT_ROOT(self), IT_POS(self))) == IT_POS(self));
/* ++it: only before the end (CRAB_ERROR otherwise) */
IT *IT_INC(ITB *self)
__CPROVER_requires(FRESH(it_inc, self, sizeof(IT)) && !IT_ATEND(self))
__CPROVER_assigns(*(IT *)self)
__CPROVER_ensures(__CPROVER_return_value == (IT *)self && IT_ROOT(self) == (void *)__CPROVER_old(((IT *)self)->f0.f0.f0.f0) && IT_POS(self) == __CPROVER_old(IT_POS(self)) + 1);
/* destructor: releases the leaf and the branching stack; no map changes meaning */
void PTN(8iteratorD2Ev)(IT *self)
__CPROVER_requires(FRESH(it_dtor, self, sizeof(IT)))
__CPROVER_assigns()
__CPROVER_ensures(1);

/* ===================== PROVED: separate_domain::begin / end ===================== */
/* begin() / end(): CRAB_ERROR on a bottom environment (allow_error: the postcondition !sd_bot says that the function does
 * NOT return on bottom); otherwise the tree's own begin / end, i.e. position 0 of the listing of THIS environment's tree.
 * Harness: the glue size() / iteration: for a non-bottom environment begin() != end() exactly when there are bindings
 * (exactly when the environment is not top), using the real end(), the real is_top() and the assumed iterator !=. */
//@check id=sd_begin fn=_ZNK4ikos15separate_domainI1K2GVSt8equal_toIS2_EE5beginEv props=C19 allow_error=1
void SDK(5beginEv)(IT *ret, SD *self)
__CPROVER_requires(FRESH(sd_begin, ret, sizeof(IT)) && FRESH(sd_begin, self, sizeof(SD)) && sd_ok(self))
__CPROVER_assigns(*ret)
__CPROVER_ensures(!sd_bot(self))
__CPROVER_ensures(IT_ROOT(ret) == ROOT(self->f1) && IT_POS(ret) == 0);
void h_sd_begin(void){ IN(SD, a); IT b, e; SDK(5beginEv)(&b, &a); SDK(3endEv)(&e, &a);
  unsigned char ne = IT_NEQ((ITF *)&b, (ITF *)&e);
  __CPROVER_assert(ne == (SDK(6is_topEv)(&a) ? 0 : 1), "begin() != end() exactly when the environment is not top");
  __CPROVER_assert(ne == (M_size(ROOT(a.f1)) != 0 ? 1 : 0), "begin() != end() exactly when size of the tree is not 0");
  SATGUARD(ne); SATGUARD(!ne); REACH; }
//@check id=sd_end fn=_ZNK4ikos15separate_domainI1K2GVSt8equal_toIS2_EE3endEv props=C19 allow_error=1
void SDK(3endEv)(IT *ret, SD *self)
__CPROVER_requires(FRESH(sd_end, ret, sizeof(IT)) && FRESH(sd_end, self, sizeof(SD)) && sd_ok(self))
__CPROVER_assigns(*ret)
__CPROVER_ensures(!sd_bot(self))
__CPROVER_ensures(IT_ATEND(ret) && IT_ROOT(ret) == (void *)0);
void h_sd_end(void){ IN(SD, a); IT e; SDK(3endEv)(&e, &a); REACH; }

/* ===================== PROVED: separate_domain::project ===================== */
/* project(keys): the environment restricted to `keys`.  From the property, at an arbitrary ghost key g_k:
 *   bottom stays bottom; otherwise the environment stays non-bottom and
 *   at(g_k) afterwards = at(g_k) before, if g_k occurs in keys;  = top (no binding), otherwise
 * whatever the order of `keys` and however often a key is repeated in it.
 * Precondition: the representation invariant at the keys concerned (a binding is neither top nor bottom).
 * BOUNDED: |keys| = PJN per run (vary), tree size <= PJS.  The copy strategy runs for size <= 5 or |keys| < 60% of size,
 * the sort-and-remove strategy for size >= 6 and |keys| >= 60% of size: with PJN = 3 that is size = 6 exactly, with PJN = 4
 * size 6 and 7 (thorough tier). */
#ifndef PJN
#define PJN 3
#endif
#ifndef PJS
#define PJS 6
#endif
#define KEY_AT(v, i) (VBEG(v)[i].f1)
#define INKEYS(v, g) ((VLEN(v) > 0 && KEY_AT(v, 0) == (g)) || (VLEN(v) > 1 && KEY_AT(v, 1) == (g)) || (VLEN(v) > 2 && KEY_AT(v, 2) == (g)) || (VLEN(v) > 3 && KEY_AT(v, 3) == (g)))
#define INV_KEYS(root, v) ((VLEN(v) <= 0 || SD_INV_AT(root, KEY_AT(v, 0))) && (VLEN(v) <= 1 || SD_INV_AT(root, KEY_AT(v, 1))) && (VLEN(v) <= 2 || SD_INV_AT(root, KEY_AT(v, 2))) && (VLEN(v) <= 3 || SD_INV_AT(root, KEY_AT(v, 3))))
#define R_SD_AT _ZNK4ikos15separate_domainI1K2GVSt8equal_toIS2_EE2atERKS1_
#define R_SD_SET _ZN4ikos15separate_domainI1K2GVSt8equal_toIS2_EE3setERKS1_RKS2_
#define R_SD_FORGET _ZN4ikos15separate_domainI1K2GVSt8equal_toIS2_EEmIERKS1_
/* NOT RUN (the marker below is not a //@check line): the full check - both strategies, |keys| = 3, tree size <= 6, real
 * std::vector / std::sort / std::binary_search in line, 8 unwindings - is not decided by any back end: symbolic execution
 * 60 s / 170 000 steps, SSA conversion 150 s, then > 12 GB (minisat, kissat: out of memory; cvc5, z3: no answer in 20 min).
 * The sort-and-remove strategy needs size() >= 6, i.e. six iterations of the tree walk, each with the assumed iterator
 * contracts, std::binary_search and push_back in line.  The contract and the harness stay here for when the cost is brought down
 * (loop contracts for the tree walk, or library contracts for std::vector<K>). */
//@parked-check id=project fn=_ZN4ikos15separate_domainI1K2GVSt8equal_toIS2_EE7projectERKSt6vectorIS1_SaIS1_EE props=C19 bounded="|keys|<=3 (one run per length), tree size<=6; std::vector / std::sort / std::binary_search of libstdc++ in line, loops unwound 8 times with unwinding assertions" unwind=8 cbmc=--slice-formula vary=PJN:0-3 defs=DETALLOC timeout=600 first_timeout=300 cost=6 replace=_ZNK4ikos15separate_domainI1K2GVSt8equal_toIS2_EE2atERKS1_,_ZN4ikos15separate_domainI1K2GVSt8equal_toIS2_EE3setERKS1_RKS2_,_ZN4ikos15separate_domainI1K2GVSt8equal_toIS2_EEmIERKS1_
/* the copy strategy only: tree size <= 5 (then project copies at(k) for the keys of the vector into a fresh environment),
 * |keys| <= 1; the sort-and-remove strategy is infeasible under this precondition (its loops are cut at 2 unwindings, the
 * unwinding assertions hold because the path is infeasible).
 * ALSO NOT RUN YET: decided in 25 - 45 s per run (minisat, --slice-formula) with every postcondition proved, but ONE obligation
 * fails: "patricia_tree::size(): undefined function should be unreachable" - a call to the dropped size() body that
 * --replace-call-with-contract did not redirect (not yet traced; the other checks that reach size() do get it replaced).
 * Machinery question, not a finding about crab. */
//@parked-check id=project_copy fn=_ZN4ikos15separate_domainI1K2GVSt8equal_toIS2_EE7projectERKSt6vectorIS1_SaIS1_EE props=C19 tag=project harness=h_project bounded="|keys|<=1 (one run per length), tree size<=5: copy strategy only; the sort-and-remove strategy (size>=6) is NOT covered" unwind=2 vary=PJN:0-1 defs=DETALLOC,PJS=5 cbmc=--slice-formula timeout=300 replace=_ZNK4ikos15separate_domainI1K2GVSt8equal_toIS2_EE2atERKS1_,_ZN4ikos15separate_domainI1K2GVSt8equal_toIS2_EE3setERKS1_RKS2_,_ZN4ikos15separate_domainI1K2GVSt8equal_toIS2_EEmIERKS1_,_ZNK4ikos13patricia_treeI1K2GVSt8equal_toIS2_EE4sizeEv
void SDN(7projectERKSt6vectorIS1_SaIS1_EE)(SD *self, VEC *keys)
__CPROVER_requires(FRESH(project, self, sizeof(SD)) && FRESH(project, keys, sizeof(VEC)) && sd_ok(self))
__CPROVER_requires(VLEN(keys) == PJN && PJN <= 4 && M_size(ROOT(self->f1)) <= PJS)
__CPROVER_requires(sd_bot(self) || (SD_INV_AT(ROOT(self->f1), g_k) && INV_KEYS(ROOT(self->f1), keys)))
__CPROVER_requires(GV_LATTICE_HYP)
__CPROVER_assigns(*self)
__CPROVER_ensures(sd_ok(self) && self->f0 == __CPROVER_old(self->f0))
__CPROVER_ensures(OLDBOT(self) || M_has(ROOT(self->f1), g_k) == (INKEYS(keys, g_k) && M_has(OLDROOT(self), g_k)))
__CPROVER_ensures(OLDBOT(self) || AT_ROOT(ROOT(self->f1), g_k) == (INKEYS(keys, g_k) ? AT_ROOT(OLDROOT(self), g_k) : GV_TOPID))
__CPROVER_ensures(OLDBOT(self) || SD_INV_AT(ROOT(self->f1), g_k));
void h_project(void){
  IN(SD, a); GHOSTG(uint64_t, g_k);
  K ks[4]; static uint64_t wit_k0, wit_k1, wit_k2, wit_k3; wit_k0 = ks[0].f1; wit_k1 = ks[1].f1; wit_k2 = ks[2].f1; wit_k3 = ks[3].f1;
  ks[0].f0.f0 = VT_K; ks[1].f0.f0 = VT_K; ks[2].f0.f0 = VT_K; ks[3].f0.f0 = VT_K;          /* genuine K objects */
  VEC keys; VBEG(&keys) = ks; VEND(&keys) = ks + PJN; keys.f0.f0.f0.f2 = ks + PJN;      /* any order, repetitions allowed */
  SDN(7projectERKSt6vectorIS1_SaIS1_EE)(&a, &keys);
  SATGUARD(wit_a.f0);
  SATGUARD(!wit_a.f0 && M_size(ROOT(wit_a.f1)) == 0);
  SATGUARD(!wit_a.f0 && M_size(ROOT(wit_a.f1)) != 0 && M_size(ROOT(wit_a.f1)) <= 5 && M_has(ROOT(wit_a.f1), g_k) && !INKEYS(&keys, g_k));
#if PJN >= 1
  SATGUARD(!wit_a.f0 && M_size(ROOT(wit_a.f1)) != 0 && M_size(ROOT(wit_a.f1)) <= 5 && M_has(ROOT(wit_a.f1), g_k) && INKEYS(&keys, g_k));
#endif
#if PJN >= 3
  /* the sort-and-remove strategy is reached: with a kept key, with a removed key, with an UNSORTED key vector, with a repeated key */
  SATGUARD(!wit_a.f0 && M_size(ROOT(wit_a.f1)) >= 6 && M_has(ROOT(wit_a.f1), g_k) && INKEYS(&keys, g_k));
  SATGUARD(!wit_a.f0 && M_size(ROOT(wit_a.f1)) >= 6 && M_has(ROOT(wit_a.f1), g_k) && !INKEYS(&keys, g_k));
  SATGUARD(!wit_a.f0 && M_size(ROOT(wit_a.f1)) >= 6 && ks[0].f1 > ks[1].f1 && ks[1].f1 > ks[2].f1 && g_k == ks[0].f1 && M_has(ROOT(wit_a.f1), g_k));
  SATGUARD(!wit_a.f0 && M_size(ROOT(wit_a.f1)) >= 6 && ks[0].f1 == ks[2].f1 && ks[1].f1 < ks[0].f1 && g_k == ks[0].f1 && M_has(ROOT(wit_a.f1), g_k));
#endif
  REACH; }
