/* Set containers on the same trees: ikos::patricia_tree_set<K> (patricia_trees.hpp) and ikos::discrete_domain<K>
 * (discrete_domains.hpp) — second sentence of C19, the members that do not go through binary_op<K,bool>
 * (subset, superset, equality, membership, element removal, emptiness, size, top/bottom flags).
 * Union / intersection / insertion and the operation objects union_op / intersection_op: contracts_setops.c. */
#define PBN(x) _ZN4ikos13patricia_treeI1KbSt8equal_toIbEE##x
#define PBK(x) _ZNK4ikos13patricia_treeI1KbSt8equal_toIbEE##x
#define PSN(x) _ZN4ikos17patricia_tree_setI1KE##x
#define PSK(x) _ZNK4ikos17patricia_tree_setI1KE##x
#define DDN(x) _ZN4ikos15discrete_domainI1KE##x
#define DDK(x) _ZNK4ikos15discrete_domainI1KE##x

/* ===================== ASSUMED: patricia_tree<K,bool> as a finite map ===================== */
unsigned char PBK(3leqERKS4_RNS_13partial_orderIbEE)(PTB *self, PTB *t, PORDB *po)
__CPROVER_requires(FRESH(ptb_leq, self, sizeof(PTB)) && FRESH(ptb_leq, t, sizeof(PTB)) && FRESH(ptb_leq, po, sizeof(PORDB)))
__CPROVER_assigns()
__CPROVER_ensures(__CPROVER_return_value == (M_leq(ROOT(*self), ROOT(*t), VPTR(po)) ? 1 : 0))
__CPROVER_ensures(ROOT(*self) != ROOT(*t) || __CPROVER_return_value == 1)
__CPROVER_ensures(!(VPTR(po) == VT_subset && ROOT(*self) == 0) || __CPROVER_return_value == 1);
/* lookup: optional<bool> comes back in a 16-bit register: low byte = initialized, high byte = value */
uint16_t PBK(6lookupERKS1_)(PTB *self, K *key)
__CPROVER_requires(FRESH(ptb_lookup, self, sizeof(PTB)) && FRESH(ptb_lookup, key, sizeof(K)))
__CPROVER_assigns()
__CPROVER_ensures((__CPROVER_return_value & 0xff) == (M_has(ROOT(*self), KIDX(key)) ? 1 : 0))
__CPROVER_ensures(!M_has(ROOT(*self), KIDX(key)) || (__CPROVER_return_value >> 8) == (M_val(ROOT(*self), KIDX(key)) & 1));
void PBN(6removeERKS1_)(PTB *self, K *key)
__CPROVER_requires(FRESH(ptb_remove, self, sizeof(PTB)) && FRESH(ptb_remove, key, sizeof(K)))
__CPROVER_assigns(*self)
__CPROVER_ensures(!M_has(ROOT(*self), KIDX(key)))
__CPROVER_ensures(g_k == KIDX(key) || (M_has(ROOT(*self), g_k) == M_has((void *)__CPROVER_old(self->f0.f0.f0), g_k) &&
                                        M_val(ROOT(*self), g_k) == M_val((void *)__CPROVER_old(self->f0.f0.f0), g_k)));
uint64_t PBK(4sizeEv)(PTB *self)
__CPROVER_requires(FRESH(ptb_size, self, sizeof(PTB)))
__CPROVER_assigns()
__CPROVER_ensures(__CPROVER_return_value == M_size(ROOT(*self)))
__CPROVER_ensures(ROOT(*self) != 0 || __CPROVER_return_value == 0);

/* ===================== PROVED: patricia_tree_set<K> ===================== */
#define PS_CMP(tag, fn, SPEC) \
unsigned char fn(PS *self, PS *s) \
__CPROVER_requires(FRESH(tag, self, sizeof(PS)) && FRESH(tag, s, sizeof(PS))) \
__CPROVER_assigns() \
__CPROVER_ensures(__CPROVER_return_value == ((SPEC) ? 1 : 0)) \
__CPROVER_ensures(SROOT(*self) != SROOT(*s) || __CPROVER_return_value == 1); \
void h_##tag(void){ IN(PS, a); IN(PS, b); unsigned char r = fn(&a, &b); SATGUARD(r); SATGUARD(!r); REACH; }
//@check id=ps_subset fn=_ZNK4ikos17patricia_tree_setI1KEleERKS2_ props=C19 replace=_ZNK4ikos13patricia_treeI1KbSt8equal_toIbEE3leqERKS4_RNS_13partial_orderIbEE
PS_CMP(ps_subset, PSK(leERKS2_), S_sub(SROOT(*self), SROOT(*s)))
//@check id=ps_superset fn=_ZNK4ikos17patricia_tree_setI1KEgeERKS2_ props=C19 replace=_ZNK4ikos13patricia_treeI1KbSt8equal_toIbEE3leqERKS4_RNS_13partial_orderIbEE
PS_CMP(ps_superset, PSK(geERKS2_), S_sub(SROOT(*s), SROOT(*self)))
//@check id=ps_equal fn=_ZNK4ikos17patricia_tree_setI1KEeqERKS2_ props=C19 replace=_ZNK4ikos13patricia_treeI1KbSt8equal_toIbEE3leqERKS4_RNS_13partial_orderIbEE
PS_CMP(ps_equal, PSK(eqERKS2_), S_sub(SROOT(*self), SROOT(*s)) && S_sub(SROOT(*s), SROOT(*self)))
/* membership */
//@check id=ps_member fn=_ZNK4ikos17patricia_tree_setI1KEixERKS1_ props=C19 replace=_ZNK4ikos13patricia_treeI1KbSt8equal_toIbEE6lookupERKS1_
unsigned char PSK(ixERKS1_)(PS *self, K *x)
__CPROVER_requires(FRESH(ps_member, self, sizeof(PS)) && FRESH(ps_member, x, sizeof(K)))
__CPROVER_assigns()
__CPROVER_ensures(__CPROVER_return_value == (S_in(SROOT(*self), KIDX(x)) ? 1 : 0));
void h_ps_member(void){ IN(PS, a); IN(K, k); unsigned char r = PSK(ixERKS1_)(&a, &k); SATGUARD(r); SATGUARD(!r); REACH; }
/* element removal (difference with a singleton) */
//@check id=ps_remove fn=_ZN4ikos17patricia_tree_setI1KEmIERKS1_ props=C19 replace=_ZN4ikos13patricia_treeI1KbSt8equal_toIbEE6removeERKS1_
PS *PSN(mIERKS1_)(PS *self, K *x)
__CPROVER_requires(FRESH(ps_remove, self, sizeof(PS)) && FRESH(ps_remove, x, sizeof(K)))
__CPROVER_assigns(*self)
__CPROVER_ensures(__CPROVER_return_value == self && !S_in(SROOT(*self), KIDX(x)))
__CPROVER_ensures(g_k == KIDX(x) || S_in(SROOT(*self), g_k) == S_in((void *)__CPROVER_old(self->f0.f0.f0.f0), g_k));
void h_ps_remove(void){ IN(PS, a); IN(K, k); GHOSTG(uint64_t, g_k); PSN(mIERKS1_)(&a, &k); SATGUARD(g_k != k.f1); REACH; }
//@check id=ps_empty fn=_ZNK4ikos17patricia_tree_setI1KE5emptyEv props=C19
unsigned char PSK(5emptyEv)(PS *self)
__CPROVER_requires(FRESH(ps_empty, self, sizeof(PS)))
__CPROVER_assigns()
__CPROVER_ensures(__CPROVER_return_value == (SROOT(*self) == 0 ? 1 : 0));
void h_ps_empty(void){ IN(PS, a); unsigned char r = PSK(5emptyEv)(&a); SATGUARD(r); SATGUARD(!r); REACH; }
//@check id=ps_size fn=_ZNK4ikos17patricia_tree_setI1KE4sizeEv props=C19 replace=_ZNK4ikos13patricia_treeI1KbSt8equal_toIbEE4sizeEv
uint64_t PSK(4sizeEv)(PS *self)
__CPROVER_requires(FRESH(ps_size, self, sizeof(PS)))
__CPROVER_assigns()
__CPROVER_ensures(__CPROVER_return_value == M_size(SROOT(*self)));
void h_ps_size(void){ IN(PS, a); PSK(4sizeEv)(&a); REACH; }
/* subset_po: any two stored booleans compare (only `true` is ever stored); an unbound key is BOTTOM (absent) */
//@check id=subset_leq fn=_ZN4ikos17patricia_tree_setI1KE9subset_po3leqERKbS5_ props=C19
unsigned char PSN(9subset_po3leqERKbS5_)(OP_subset *self, uint8_t *x, uint8_t *y)
__CPROVER_requires(FRESH(subset_leq, self, sizeof(OP_subset)) && FRESH(subset_leq, x, 1) && FRESH(subset_leq, y, 1))
__CPROVER_assigns()
__CPROVER_ensures(__CPROVER_return_value == 1);
void h_subset_leq(void){ OP_subset o; uint8_t x, y; PSN(9subset_po3leqERKbS5_)(&o, &x, &y); REACH; }
//@check id=subset_default fn=_ZN4ikos17patricia_tree_setI1KE9subset_po14default_is_topEv props=C19
unsigned char PSN(9subset_po14default_is_topEv)(OP_subset *self)
__CPROVER_requires(FRESH(subset_default, self, sizeof(OP_subset)))
__CPROVER_assigns()
__CPROVER_ensures(__CPROVER_return_value == 0);
void h_subset_default(void){ OP_subset o; PSN(9subset_po14default_is_topEv)(&o); REACH; }

/* ===================== PROVED: discrete_domain<K> ===================== */
#define R_PBLEQ _ZNK4ikos13patricia_treeI1KbSt8equal_toIbEE3leqERKS4_RNS_13partial_orderIbEE
//@check id=dd_top fn=_ZN4ikos15discrete_domainI1KE3topEv props=C19,C04
void DDN(3topEv)(DD *ret)
__CPROVER_requires(FRESH(dd_top, ret, sizeof(DD)))
__CPROVER_assigns(*ret)
__CPROVER_ensures(dd_ok(ret) && dd_top(ret));
void h_dd_top(void){ DD r; DDN(3topEv)(&r);
  __CPROVER_assert(DDK(6is_topEv)(&r) == 1, "top().is_top()");
  __CPROVER_assert(DDK(9is_bottomEv)(&r) == 0, "!top().is_bottom()");
  REACH; }
//@check id=dd_bottom fn=_ZN4ikos15discrete_domainI1KE6bottomEv props=C19,C04
void DDN(6bottomEv)(DD *ret)
__CPROVER_requires(FRESH(dd_bottom, ret, sizeof(DD)))
__CPROVER_assigns(*ret)
__CPROVER_ensures(dd_ok(ret) && !dd_top(ret) && SROOT(ret->f1) == 0);
void h_dd_bottom(void){ DD r; DDN(6bottomEv)(&r);
  __CPROVER_assert(DDK(9is_bottomEv)(&r) == 1, "bottom().is_bottom()");
  __CPROVER_assert(DDK(6is_topEv)(&r) == 0, "!bottom().is_top()");
  REACH; }
//@check id=dd_is_top fn=_ZNK4ikos15discrete_domainI1KE6is_topEv props=C19,C04
unsigned char DDK(6is_topEv)(DD *self)
__CPROVER_requires(FRESH(dd_is_top, self, sizeof(DD)) && dd_ok(self))
__CPROVER_assigns()
__CPROVER_ensures(__CPROVER_return_value == (dd_top(self) ? 1 : 0));
void h_dd_is_top(void){ IN(DD, a); DDK(6is_topEv)(&a); REACH; }
/* is_bottom: the empty set */
//@check id=dd_is_bottom fn=_ZNK4ikos15discrete_domainI1KE9is_bottomEv props=C19,C04
unsigned char DDK(9is_bottomEv)(DD *self)
__CPROVER_requires(FRESH(dd_is_bottom, self, sizeof(DD)) && dd_ok(self))
__CPROVER_assigns()
__CPROVER_ensures(__CPROVER_return_value == ((!dd_top(self) && SROOT(self->f1) == 0) ? 1 : 0));
void h_dd_is_bottom(void){ IN(DD, a); unsigned char r = DDK(9is_bottomEv)(&a); SATGUARD(r); SATGUARD(!r); REACH; }
/* subset test: everything is below top, top is below top only, otherwise the set order.
 * Consequences: yes on equal values, yes with bottom (empty set) on the left, yes with top on the right. */
#define DD_LEQ(a, b) (dd_top(b) ? 1 : (dd_top(a) ? 0 : (S_sub(SROOT((a)->f1), SROOT((b)->f1)) ? 1 : 0)))
//@check id=dd_leq fn=_ZNK4ikos15discrete_domainI1KEleERKS2_ props=C19,C04 replace=_ZNK4ikos13patricia_treeI1KbSt8equal_toIbEE3leqERKS4_RNS_13partial_orderIbEE
unsigned char DDK(leERKS2_)(DD *self, DD *other)
__CPROVER_requires(FRESH(dd_leq, self, sizeof(DD)) && FRESH(dd_leq, other, sizeof(DD)) && dd_ok(self) && dd_ok(other))
__CPROVER_assigns()
__CPROVER_ensures(__CPROVER_return_value == DD_LEQ(self, other))
__CPROVER_ensures(!dd_top(other) || __CPROVER_return_value == 1)
__CPROVER_ensures(!(!dd_top(self) && SROOT(self->f1) == 0) || __CPROVER_return_value == 1)
__CPROVER_ensures(!(self->f0 == other->f0 && SROOT(self->f1) == SROOT(other->f1)) || __CPROVER_return_value == 1);
void h_dd_leq(void){ IN(DD, a); IN(DD, b); unsigned char r = DDK(leERKS2_)(&a, &b);
  SATGUARD(b.f0); SATGUARD(!b.f0 && a.f0); SATGUARD(!b.f0 && !a.f0 && r); SATGUARD(!b.f0 && !a.f0 && !r); REACH; }
/* equality: the same set of elements.  top is the set of ALL elements: it equals top only.
 * KNOWN TO FAIL on the unchanged tree (pending_fixes/sepdom-1-*): the code returns
 * (top && other.top) || m_set == other.m_set, and a top carries an empty m_set, so top() == bottom() is true.
 * Carve-out predicate for known_findings.json:  self->f0 != other->f0  */
//@check id=dd_equal fn=_ZNK4ikos15discrete_domainI1KEeqERKS2_ props=C19 replace=_ZNK4ikos13patricia_treeI1KbSt8equal_toIbEE3leqERKS4_RNS_13partial_orderIbEE
unsigned char DDK(eqERKS2_)(DD *self, DD *other)
__CPROVER_requires(FRESH(dd_equal, self, sizeof(DD)) && FRESH(dd_equal, other, sizeof(DD)) && dd_ok(self) && dd_ok(other) && KF_dd_equal)
__CPROVER_assigns()
__CPROVER_ensures(__CPROVER_return_value == ((DD_LEQ(self, other) && DD_LEQ(other, self)) ? 1 : 0))
__CPROVER_ensures(!(dd_top(self) != dd_top(other)) || __CPROVER_return_value == 0);
void h_dd_equal(void){ IN(DD, a); IN(DD, b); unsigned char r = DDK(eqERKS2_)(&a, &b); SATGUARD(r); SATGUARD(!r); REACH; }
/* membership: nothing is in bottom, everything is in top, otherwise membership in the set */
//@check id=dd_contain fn=_ZN4ikos15discrete_domainI1KE7containES1_ props=C19 replace=_ZNK4ikos13patricia_treeI1KbSt8equal_toIbEE6lookupERKS1_
unsigned char DDN(7containES1_)(DD *self, K *e)
__CPROVER_requires(FRESH(dd_contain, self, sizeof(DD)) && FRESH(dd_contain, e, sizeof(K)) && dd_ok(self))
__CPROVER_assigns()
__CPROVER_ensures(__CPROVER_return_value == ((dd_top(self) || S_in(SROOT(self->f1), KIDX(e))) ? 1 : 0));
void h_dd_contain(void){ IN(DD, a); IN(K, k); unsigned char r = DDN(7containES1_)(&a, &k); SATGUARD(a.f0); SATGUARD(!a.f0 && r); SATGUARD(!a.f0 && !r); REACH; }
/* operator-=(e): top stays top (the complement of a singleton is not representable: over-approximation),
 * otherwise e is removed and every other element stays */
//@check id=dd_remove fn=_ZN4ikos15discrete_domainI1KEmIES1_ props=C19 replace=_ZN4ikos13patricia_treeI1KbSt8equal_toIbEE6removeERKS1_
DD *DDN(mIES1_)(DD *self, K *e)
__CPROVER_requires(FRESH(dd_remove, self, sizeof(DD)) && FRESH(dd_remove, e, sizeof(K)) && dd_ok(self))
__CPROVER_assigns(*self)
__CPROVER_ensures(__CPROVER_return_value == self && dd_ok(self) && self->f0 == __CPROVER_old(self->f0))
__CPROVER_ensures(dd_top(self) || !S_in(SROOT(self->f1), KIDX(e)))
__CPROVER_ensures(dd_top(self) || g_k == KIDX(e) || S_in(SROOT(self->f1), g_k) == S_in((void *)__CPROVER_old(self->f1.f0.f0.f0.f0), g_k));
void h_dd_remove(void){ IN(DD, a); IN(K, k); GHOSTG(uint64_t, g_k); DDN(mIES1_)(&a, &k); SATGUARD(wit_a.f0); SATGUARD(!wit_a.f0 && g_k != k.f1); REACH; }
