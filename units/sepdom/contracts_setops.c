/* Set containers, part 2: union, intersection, insertion of ikos::patricia_tree_set<K> (patricia_trees.hpp) and
 * ikos::discrete_domain<K> (discrete_domains.hpp) - last sentence of C19 ("... implement union, intersection, difference,
 * membership and subset exactly").
 * PROVED: the operation objects union_op / intersection_op (apply, default_is_absorbing), and the real code of
 * patricia_tree_set::{operator|, |=, &, &=, +=} and discrete_domain::{operator|, |=, &, +=}: which operation object goes to the
 * tree, the copy / move plumbing around it, the top flag logic of discrete_domain.
 * ASSUMED (replace=, never enforced): patricia_tree<K,bool>::merge_with / insert as finite-map facts at the ghost key g_k, and
 * the shared_ptr plumbing of patricia_tree<K,bool> (copy / move / move-assign / destroy pass the root pointer on).
 * NOT IN THE CODE: a set DIFFERENCE of two sets.  Neither class has one: patricia_tree_set has operator-(const Element&) /
 * operator-=(const Element&) only (the former does not even compile, pending_fixes/sepdom-2-*), discrete_domain has
 * operator-(Element) / operator-=(Element) / the Range variants (loops over operator-=(Element)).  Element removal is
 * covered by ps_remove / dd_remove (contracts_set.c). */

/* ===================== ASSUMED: patricia_tree<K,bool> plumbing, insert, merge_with ===================== */
#define PTB_OLDROOT(self) ((void *)__CPROVER_old((self)->f0.f0.f0))
void PBN(C2ERKS4_)(PTB *self, PTB *o)
__CPROVER_requires(FRESH(ptb_copy, self, sizeof(PTB)) && FRESH(ptb_copy, o, sizeof(PTB)))
__CPROVER_assigns(*self)
__CPROVER_ensures(ROOT(*self) == ROOT(*o));
void PBN(C2EOS4_)(PTB *self, PTB *o)
__CPROVER_requires(FRESH(ptb_move, self, sizeof(PTB)) && FRESH(ptb_move, o, sizeof(PTB)))
__CPROVER_assigns(*self, *o)
__CPROVER_ensures(ROOT(*self) == (void *)__CPROVER_old(o->f0.f0.f0));
PTB *PBN(aSEOS4_)(PTB *self, PTB *o)
__CPROVER_requires(FRESH(ptb_massign, self, sizeof(PTB)) && FRESH(ptb_massign, o, sizeof(PTB)))
__CPROVER_assigns(*self, *o)
__CPROVER_ensures(__CPROVER_return_value == self && ROOT(*self) == (void *)__CPROVER_old(o->f0.f0.f0));
void PBN(D2Ev)(PTB *self)
__CPROVER_requires(FRESH(ptb_dtor, self, sizeof(PTB)))
__CPROVER_assigns()
__CPROVER_ensures(1);
/* insert(k, v): k is bound to v, every other key g_k is as before */
void PBN(6insertERKS1_RKb)(PTB *self, K *key, uint8_t *value)
__CPROVER_requires(FRESH(ptb_insert, self, sizeof(PTB)) && FRESH(ptb_insert, key, sizeof(K)) && FRESH(ptb_insert, value, 1))
__CPROVER_assigns(*self)
__CPROVER_ensures(M_has(ROOT(*self), KIDX(key)) && (M_val(ROOT(*self), KIDX(key)) & 1) == (*value & 1))
__CPROVER_ensures(g_k == KIDX(key) || (M_has(ROOT(*self), g_k) == M_has(PTB_OLDROOT(self), g_k) &&
                                        M_val(ROOT(*self), g_k) == M_val(PTB_OLDROOT(self), g_k)));
/* merge_with(t, op), read at the ghost key g_k.  tree::merge applies op.apply to the keys bound in both trees and
 * keeps (default not absorbing) or drops (default absorbing) the keys bound in one only.  With what the two operation
 * objects are PROVED to return (union_apply, union_absorbing, inter_apply, inter_absorbing below) that is:
 *   union_op:        never bottom; bound iff bound in either; bound in both -> true; bound in one -> that binding
 *   intersection_op: never bottom; bound iff bound in both, and then to true */
unsigned char PBN(10merge_withERKS4_RNS_9binary_opIS1_bEE)(PTB *self, PTB *t, BOPB *op)
__CPROVER_requires(FRESH(ptb_merge, self, sizeof(PTB)) && FRESH(ptb_merge, t, sizeof(PTB)) && FRESH(ptb_merge, op, sizeof(BOPB)))
__CPROVER_assigns(*self)
__CPROVER_ensures(!(VPTR(op) == VT_union || VPTR(op) == VT_inter) || __CPROVER_return_value == 0)
__CPROVER_ensures(VPTR(op) != VT_union || M_has(ROOT(*self), g_k) == (M_has(PTB_OLDROOT(self), g_k) | M_has(ROOT(*t), g_k)))
__CPROVER_ensures(!(VPTR(op) == VT_union && M_has(PTB_OLDROOT(self), g_k) && M_has(ROOT(*t), g_k)) || (M_val(ROOT(*self), g_k) & 1) == 1)
__CPROVER_ensures(!(VPTR(op) == VT_union && M_has(PTB_OLDROOT(self), g_k) && !M_has(ROOT(*t), g_k)) || M_val(ROOT(*self), g_k) == M_val(PTB_OLDROOT(self), g_k))
__CPROVER_ensures(!(VPTR(op) == VT_union && !M_has(PTB_OLDROOT(self), g_k) && M_has(ROOT(*t), g_k)) || M_val(ROOT(*self), g_k) == M_val(ROOT(*t), g_k))
__CPROVER_ensures(VPTR(op) != VT_inter || M_has(ROOT(*self), g_k) == (M_has(PTB_OLDROOT(self), g_k) & M_has(ROOT(*t), g_k)))
__CPROVER_ensures(!(VPTR(op) == VT_inter && M_has(ROOT(*self), g_k)) || (M_val(ROOT(*self), g_k) & 1) == 1);

#define R_PB_COPY _ZN4ikos13patricia_treeI1KbSt8equal_toIbEEC2ERKS4_
#define R_PB_MOVE _ZN4ikos13patricia_treeI1KbSt8equal_toIbEEC2EOS4_
#define R_PB_MASSIGN _ZN4ikos13patricia_treeI1KbSt8equal_toIbEEaSEOS4_
#define R_PB_DTOR _ZN4ikos13patricia_treeI1KbSt8equal_toIbEED2Ev
#define R_PB_INSERT _ZN4ikos13patricia_treeI1KbSt8equal_toIbEE6insertERKS1_RKb
#define R_PB_MERGE _ZN4ikos13patricia_treeI1KbSt8equal_toIbEE10merge_withERKS4_RNS_9binary_opIS1_bEE

/* ===================== PROVED: union_op / intersection_op ===================== */
/* apply returns std::pair<bool, boost::optional<bool>> (3 bytes) in a register: the IR type is i24, carried in a
 * uint32_t by tools/ll2c.py: byte 0 = first ("bottom"), byte 1 = optional::m_initialized, byte 2 = the stored bool.
 * Both classes: never bottom, and the result is PRESENT and TRUE (the element is in the result set). */
#define SETOP_APPLY(tag, fn, OPT_T) \
uint32_t fn(OPT_T *self, K *key, uint8_t *x, uint8_t *y) \
__CPROVER_requires(FRESH(tag, self, sizeof(OPT_T)) && FRESH(tag, key, sizeof(K)) && FRESH(tag, x, 1) && FRESH(tag, y, 1)) \
__CPROVER_assigns() \
__CPROVER_ensures((__CPROVER_return_value & 0xff) == 0) \
__CPROVER_ensures(((__CPROVER_return_value >> 8) & 0xff) == 1) \
__CPROVER_ensures(((__CPROVER_return_value >> 16) & 0xff) == 1) \
__CPROVER_ensures((__CPROVER_return_value >> 24) == 0); \
void h_##tag(void){ IN(K, k); uint8_t x, y; OPT_T o; fn(&o, &k, &x, &y); REACH; }
//@check id=union_apply fn=_ZN4ikos17patricia_tree_setI1KE8union_op5applyERKS1_RKbS7_ props=C19
SETOP_APPLY(union_apply, PSN(8union_op5applyERKS1_RKbS7_), OP_union)
/* union: a key bound in one operand only is KEPT */
//@check id=union_absorbing fn=_ZN4ikos17patricia_tree_setI1KE8union_op20default_is_absorbingEv props=C19
FLAGFN(union_absorbing, PSN(8union_op20default_is_absorbingEv), OP_union, 0)
//@check id=inter_apply fn=_ZN4ikos17patricia_tree_setI1KE15intersection_op5applyERKS1_RKbS7_ props=C19
SETOP_APPLY(inter_apply, PSN(15intersection_op5applyERKS1_RKbS7_), OP_inter)
/* intersection: a key bound in one operand only is DROPPED */
//@check id=inter_absorbing fn=_ZN4ikos17patricia_tree_setI1KE15intersection_op20default_is_absorbingEv props=C19
FLAGFN(inter_absorbing, PSN(15intersection_op20default_is_absorbingEv), OP_inter, 1)

/* ===================== PROVED: patricia_tree_set<K> union / intersection / insertion ===================== */
#define PS_OLDROOT(self) ((void *)__CPROVER_old((self)->f0.f0.f0.f0))
/* s1 | s2, s1 & s2: g_k is in the result iff it is in either / in both; the result keeps the invariant at g_k */
#define PS_BINOP(tag, fn, OPR) \
void fn(PS *ret, PS *self, PS *s) \
__CPROVER_requires(FRESH(tag, ret, sizeof(PS)) && FRESH(tag, self, sizeof(PS)) && FRESH(tag, s, sizeof(PS))) \
__CPROVER_requires(PS_INV_AT(SROOT(*self), g_k) && PS_INV_AT(SROOT(*s), g_k)) \
__CPROVER_assigns(*ret) \
__CPROVER_ensures(S_in(SROOT(*ret), g_k) == (S_in(SROOT(*self), g_k) OPR S_in(SROOT(*s), g_k))) \
__CPROVER_ensures(PS_INV_AT(SROOT(*ret), g_k)); \
void h_##tag(void){ IN(PS, a); IN(PS, b); PS r; GHOSTG(uint64_t, g_k); fn(&r, &a, &b); \
  SATGUARD(S_in(SROOT(a), g_k) && S_in(SROOT(b), g_k)); SATGUARD(S_in(SROOT(a), g_k) && !S_in(SROOT(b), g_k)); \
  SATGUARD(!S_in(SROOT(a), g_k) && S_in(SROOT(b), g_k)); SATGUARD(!S_in(SROOT(a), g_k) && !S_in(SROOT(b), g_k)); REACH; }
/* s1 |= s2, s1 &= s2 */
#define PS_BINOP_WITH(tag, fn, OPR) \
PS *fn(PS *self, PS *s) \
__CPROVER_requires(FRESH(tag, self, sizeof(PS)) && FRESH(tag, s, sizeof(PS))) \
__CPROVER_requires(PS_INV_AT(SROOT(*self), g_k) && PS_INV_AT(SROOT(*s), g_k)) \
__CPROVER_assigns(*self) \
__CPROVER_ensures(__CPROVER_return_value == self) \
__CPROVER_ensures(S_in(SROOT(*self), g_k) == (S_in(PS_OLDROOT(self), g_k) OPR S_in(SROOT(*s), g_k))) \
__CPROVER_ensures(PS_INV_AT(SROOT(*self), g_k)); \
void h_##tag(void){ IN(PS, a); IN(PS, b); GHOSTG(uint64_t, g_k); fn(&a, &b); \
  SATGUARD(S_in(SROOT(wit_a), g_k) && S_in(SROOT(b), g_k)); SATGUARD(S_in(SROOT(wit_a), g_k) && !S_in(SROOT(b), g_k)); \
  SATGUARD(!S_in(SROOT(wit_a), g_k) && S_in(SROOT(b), g_k)); SATGUARD(!S_in(SROOT(wit_a), g_k) && !S_in(SROOT(b), g_k)); REACH; }
//@check id=ps_union fn=_ZNK4ikos17patricia_tree_setI1KEorERKS2_ props=C19 replace=_ZN4ikos13patricia_treeI1KbSt8equal_toIbEEC2ERKS4_,_ZN4ikos13patricia_treeI1KbSt8equal_toIbEEC2EOS4_,_ZN4ikos13patricia_treeI1KbSt8equal_toIbEED2Ev,_ZN4ikos13patricia_treeI1KbSt8equal_toIbEE10merge_withERKS4_RNS_9binary_opIS1_bEE
PS_BINOP(ps_union, PSK(orERKS2_), ||)
//@check id=ps_inter fn=_ZNK4ikos17patricia_tree_setI1KEanERKS2_ props=C19 replace=_ZN4ikos13patricia_treeI1KbSt8equal_toIbEEC2ERKS4_,_ZN4ikos13patricia_treeI1KbSt8equal_toIbEEC2EOS4_,_ZN4ikos13patricia_treeI1KbSt8equal_toIbEED2Ev,_ZN4ikos13patricia_treeI1KbSt8equal_toIbEE10merge_withERKS4_RNS_9binary_opIS1_bEE
PS_BINOP(ps_inter, PSK(anERKS2_), &&)
//@check id=ps_union_with fn=_ZN4ikos17patricia_tree_setI1KEoRERKS2_ props=C19 replace=_ZN4ikos13patricia_treeI1KbSt8equal_toIbEE10merge_withERKS4_RNS_9binary_opIS1_bEE
PS_BINOP_WITH(ps_union_with, PSN(oRERKS2_), ||)
//@check id=ps_inter_with fn=_ZN4ikos17patricia_tree_setI1KEaNERKS2_ props=C19 replace=_ZN4ikos13patricia_treeI1KbSt8equal_toIbEE10merge_withERKS4_RNS_9binary_opIS1_bEE
PS_BINOP_WITH(ps_inter_with, PSN(aNERKS2_), &&)
/* s += e (union with a singleton): e is in, every other element as before */
//@check id=ps_insert fn=_ZN4ikos17patricia_tree_setI1KEpLERKS1_ props=C19 replace=_ZN4ikos13patricia_treeI1KbSt8equal_toIbEE6insertERKS1_RKb
PS *PSN(pLERKS1_)(PS *self, K *e)
__CPROVER_requires(FRESH(ps_insert, self, sizeof(PS)) && FRESH(ps_insert, e, sizeof(K)))
__CPROVER_requires(PS_INV_AT(SROOT(*self), g_k))
__CPROVER_assigns(*self)
__CPROVER_ensures(__CPROVER_return_value == self && S_in(SROOT(*self), KIDX(e)))
__CPROVER_ensures(g_k == KIDX(e) || S_in(SROOT(*self), g_k) == S_in(PS_OLDROOT(self), g_k))
__CPROVER_ensures(PS_INV_AT(SROOT(*self), g_k));
void h_ps_insert(void){ IN(PS, a); IN(K, k); GHOSTG(uint64_t, g_k); PSN(pLERKS1_)(&a, &k);
  SATGUARD(g_k != k.f1 && S_in(SROOT(wit_a), g_k)); SATGUARD(g_k != k.f1 && !S_in(SROOT(wit_a), g_k)); SATGUARD(g_k == k.f1); REACH; }

/* ===================== PROVED: discrete_domain<K> union / intersection / insertion ===================== */
/* top is the set of ALL elements: union with top is top, intersection with top is the other operand; a value that is
 * not top is a finite set, so a union / an intersection is top exactly when both / either operands demand it */
#define DD_OLDROOT(self) ((void *)__CPROVER_old((self)->f1.f0.f0.f0.f0))
#define DD_OLDTOP(self) (__CPROVER_old((self)->f0) != 0)
#define DD_INV_AT(x, e) PS_INV_AT(SROOT((x)->f1), e)
#define DD_BINOP(tag, fn, OPR) \
void fn(DD *ret, DD *self, DD *other) \
__CPROVER_requires(FRESH(tag, ret, sizeof(DD)) && FRESH(tag, self, sizeof(DD)) && FRESH(tag, other, sizeof(DD)) && dd_ok(self) && dd_ok(other)) \
__CPROVER_requires(DD_INV_AT(self, g_k) && DD_INV_AT(other, g_k)) \
__CPROVER_assigns(*ret) \
__CPROVER_ensures(dd_ok(ret) && DD_INV_AT(ret, g_k)) \
__CPROVER_ensures(DD_in(ret, g_k) == (DD_in(self, g_k) OPR DD_in(other, g_k))) \
__CPROVER_ensures(dd_top(ret) == (dd_top(self) OPR dd_top(other))); \
void h_##tag(void){ IN(DD, a); IN(DD, b); DD r; GHOSTG(uint64_t, g_k); fn(&r, &a, &b); \
  SATGUARD(a.f0 && b.f0); SATGUARD(a.f0 && !b.f0 && DD_in(&b, g_k)); SATGUARD(a.f0 && !b.f0 && !DD_in(&b, g_k)); SATGUARD(!a.f0 && b.f0); \
  SATGUARD(!a.f0 && !b.f0 && DD_in(&a, g_k) && DD_in(&b, g_k)); SATGUARD(!a.f0 && !b.f0 && DD_in(&a, g_k) && !DD_in(&b, g_k)); \
  SATGUARD(!a.f0 && !b.f0 && !DD_in(&a, g_k) && !DD_in(&b, g_k)); SATGUARD(!a.f0 && SROOT(a.f1) == 0); REACH; }
//@check id=dd_union fn=_ZNK4ikos15discrete_domainI1KEorERKS2_ props=C19,C04 replace=_ZN4ikos13patricia_treeI1KbSt8equal_toIbEEC2ERKS4_,_ZN4ikos13patricia_treeI1KbSt8equal_toIbEEC2EOS4_,_ZN4ikos13patricia_treeI1KbSt8equal_toIbEED2Ev,_ZN4ikos13patricia_treeI1KbSt8equal_toIbEE10merge_withERKS4_RNS_9binary_opIS1_bEE
DD_BINOP(dd_union, DDK(orERKS2_), ||)
//@check id=dd_inter fn=_ZNK4ikos15discrete_domainI1KEanERKS2_ props=C19,C04 replace=_ZN4ikos13patricia_treeI1KbSt8equal_toIbEEC2ERKS4_,_ZN4ikos13patricia_treeI1KbSt8equal_toIbEEC2EOS4_,_ZN4ikos13patricia_treeI1KbSt8equal_toIbEED2Ev,_ZN4ikos13patricia_treeI1KbSt8equal_toIbEE10merge_withERKS4_RNS_9binary_opIS1_bEE
DD_BINOP(dd_inter, DDK(anERKS2_), &&)
/* a |= b */
//@check id=dd_union_with fn=_ZN4ikos15discrete_domainI1KEoRERKS2_ props=C19,C04 replace=_ZN4ikos13patricia_treeI1KbSt8equal_toIbEEC2ERKS4_,_ZN4ikos13patricia_treeI1KbSt8equal_toIbEEC2EOS4_,_ZN4ikos13patricia_treeI1KbSt8equal_toIbEED2Ev,_ZN4ikos13patricia_treeI1KbSt8equal_toIbEEaSEOS4_,_ZN4ikos13patricia_treeI1KbSt8equal_toIbEE10merge_withERKS4_RNS_9binary_opIS1_bEE
void DDN(oRERKS2_)(DD *self, DD *other)
__CPROVER_requires(FRESH(dd_union_with, self, sizeof(DD)) && FRESH(dd_union_with, other, sizeof(DD)) && dd_ok(self) && dd_ok(other))
__CPROVER_requires(DD_INV_AT(self, g_k) && DD_INV_AT(other, g_k))
__CPROVER_assigns(*self)
__CPROVER_ensures(dd_ok(self) && DD_INV_AT(self, g_k))
__CPROVER_ensures(DD_in(self, g_k) == ((DD_OLDTOP(self) || S_in(DD_OLDROOT(self), g_k)) || DD_in(other, g_k)))
__CPROVER_ensures(dd_top(self) == (DD_OLDTOP(self) || dd_top(other)));
void h_dd_union_with(void){ IN(DD, a); IN(DD, b); GHOSTG(uint64_t, g_k); DDN(oRERKS2_)(&a, &b);
  SATGUARD(wit_a.f0); SATGUARD(!wit_a.f0 && b.f0); SATGUARD(!wit_a.f0 && !b.f0 && DD_in(&a, g_k)); SATGUARD(!wit_a.f0 && !b.f0 && !DD_in(&a, g_k)); REACH; }
/* a += e: top stays top (it has e already); otherwise e is in and every other element as before */
//@check id=dd_insert fn=_ZN4ikos15discrete_domainI1KEpLES1_ props=C19 replace=_ZN4ikos13patricia_treeI1KbSt8equal_toIbEE6insertERKS1_RKb
DD *DDN(pLES1_)(DD *self, K *e)
__CPROVER_requires(FRESH(dd_insert, self, sizeof(DD)) && FRESH(dd_insert, e, sizeof(K)) && dd_ok(self))
__CPROVER_requires(DD_INV_AT(self, g_k))
__CPROVER_assigns(*self)
__CPROVER_ensures(__CPROVER_return_value == self && dd_ok(self) && DD_INV_AT(self, g_k) && self->f0 == __CPROVER_old(self->f0))
__CPROVER_ensures(DD_in(self, KIDX(e)))
__CPROVER_ensures(g_k == KIDX(e) || DD_in(self, g_k) == (DD_OLDTOP(self) || S_in(DD_OLDROOT(self), g_k)));
void h_dd_insert(void){ IN(DD, a); IN(K, k); GHOSTG(uint64_t, g_k); DDN(pLES1_)(&a, &k);
  SATGUARD(wit_a.f0); SATGUARD(!wit_a.f0 && g_k != k.f1 && DD_in(&a, g_k)); SATGUARD(!wit_a.f0 && g_k != k.f1 && !DD_in(&a, g_k)); REACH; }
/* a + e, a - e (the by-value variants: copy, then += / -=): the operand is untouched (frame), the result is the operand
 * with e inserted / removed; top stays top (top has e; the complement of a singleton is not representable: over-approximation,
 * as for operator-= in dd_remove) */
//@check id=dd_plus fn=_ZN4ikos15discrete_domainI1KEplES1_ props=C19 replace=_ZN4ikos13patricia_treeI1KbSt8equal_toIbEEC2ERKS4_,_ZN4ikos13patricia_treeI1KbSt8equal_toIbEE6insertERKS1_RKb
void DDN(plES1_)(DD *ret, DD *self, K *e)
__CPROVER_requires(FRESH(dd_plus, ret, sizeof(DD)) && FRESH(dd_plus, self, sizeof(DD)) && FRESH(dd_plus, e, sizeof(K)) && dd_ok(self))
__CPROVER_requires(DD_INV_AT(self, g_k))
__CPROVER_assigns(*ret)
__CPROVER_ensures(dd_ok(ret) && DD_INV_AT(ret, g_k) && ret->f0 == self->f0)
__CPROVER_ensures(DD_in(ret, KIDX(e)))
__CPROVER_ensures(g_k == KIDX(e) || DD_in(ret, g_k) == DD_in(self, g_k));
void h_dd_plus(void){ IN(DD, a); IN(K, k); DD r; GHOSTG(uint64_t, g_k); DDN(plES1_)(&r, &a, &k);
  SATGUARD(a.f0); SATGUARD(!a.f0 && g_k != k.f1 && DD_in(&a, g_k)); SATGUARD(!a.f0 && g_k != k.f1 && !DD_in(&a, g_k)); REACH; }
//@check id=dd_minus fn=_ZN4ikos15discrete_domainI1KEmiES1_ props=C19 replace=_ZN4ikos13patricia_treeI1KbSt8equal_toIbEEC2ERKS4_,_ZN4ikos13patricia_treeI1KbSt8equal_toIbEE6removeERKS1_
void DDN(miES1_)(DD *ret, DD *self, K *e)
__CPROVER_requires(FRESH(dd_minus, ret, sizeof(DD)) && FRESH(dd_minus, self, sizeof(DD)) && FRESH(dd_minus, e, sizeof(K)) && dd_ok(self))
__CPROVER_assigns(*ret)
__CPROVER_ensures(dd_ok(ret) && ret->f0 == self->f0)
__CPROVER_ensures(dd_top(ret) || !S_in(SROOT(ret->f1), KIDX(e)))
__CPROVER_ensures(dd_top(ret) || g_k == KIDX(e) || S_in(SROOT(ret->f1), g_k) == S_in(SROOT(self->f1), g_k));
void h_dd_minus(void){ IN(DD, a); IN(K, k); DD r; GHOSTG(uint64_t, g_k); DDN(miES1_)(&r, &a, &k);
  SATGUARD(a.f0); SATGUARD(!a.f0 && g_k != k.f1 && DD_in(&a, g_k)); SATGUARD(!a.f0 && g_k != k.f1 && !DD_in(&a, g_k)); REACH; }
