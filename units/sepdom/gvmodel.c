/* The GHOST value type GV of units/sepdom/force.cpp: separate_domain<Key,Value> is generic in Value, so the
 * value lattice is an arbitrary one: every operation is an UNINTERPRETED function of the operand handles
 * (equal operands give equal results, nothing else is known).  This is the universally quantified
 * parameter of the proof, not an assumption about crab code. */
#include "spec.h"
uint64_t _ZNK2GVorERKS_(GV *a, GV *b){ return GV_JOIN(VID(a), VID(b)); }
uint64_t _ZNK2GVanERKS_(GV *a, GV *b){ return GV_MEET(VID(a), VID(b)); }
uint64_t _ZNK2GVooERKS_(GV *a, GV *b){ return GV_WIDEN(VID(a), VID(b)); }
uint64_t _ZNK2GVaaERKS_(GV *a, GV *b){ return GV_NARROW(VID(a), VID(b)); }
uint64_t _ZNK2GV19widening_thresholdsERKS_RK2TS(GV *a, GV *b, TS *ts){ return GV_WT(VID(a), VID(b), ts); }
unsigned char _ZNK2GV6is_topEv(GV *a){ return GV_ISTOP(VID(a)); }
unsigned char _ZNK2GV9is_bottomEv(GV *a){ return GV_ISBOT(VID(a)); }
unsigned char _ZNK2GVleERKS_(GV *a, GV *b){ return GV_LEQ(VID(a), VID(b)); }
unsigned char _ZNK2GVeqERKS_(GV *a, GV *b){ return __CPROVER_uninterpreted_gv_eq(VID(a), VID(b)) != 0; }
uint64_t _ZN2GV3topEv(void){ return GV_TOPID; }
uint64_t _ZN2GV6bottomEv(void){ return GV_BOTID; }
/* crab::CrabSanityCheckFlag (defined in lib/debug.cpp, default false).  dfcc havocs statics, so the check that
 * depends on it (rename1) sets it in its harness and requires it to be false. */
uint8_t _ZN4crab19CrabSanityCheckFlagE = 0;
