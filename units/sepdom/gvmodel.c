/* The GHOST value type GV of units/sepdom/force.cpp: separate_domain<Key,Value> is generic in Value, so the
 * value lattice is an arbitrary one: every operation is an UNINTERPRETED function of the operand handles
 * (equal operands give equal results, nothing else is known).  This is the universally quantified
 * parameter of the proof, not an assumption about crab code. */
#include "spec.h"
uint64_t _ZNK2GVorERKS_(GV *a, GV *b){ return GV_JOIN(VID(a), VID(b)); }
uint64_t _ZNK2GVanERKS_(GV *a, GV *b){ return GV_MEET(VID(a), VID(b)); }
uint64_t _ZNK2GVooERKS_(GV *a, GV *b){ return GV_WIDEN(VID(a), VID(b)); }
uint64_t _ZNK2GVaaERKS_(GV *a, GV *b){ return GV_NARROW(VID(a), VID(b)); }
uint64_t _ZNK2GV19widening_thresholdsERKS_RK2TS(GV *a, GV *b, TS *ts){ return GV_WT(VID(a), VID(b), ts); }
unsigned char _ZNK2GV6is_topEv(GV *a){ return GV_ISTOP(VID(a)); }
unsigned char _ZNK2GV9is_bottomEv(GV *a){ return GV_ISBOT(VID(a)); }
unsigned char _ZNK2GVleERKS_(GV *a, GV *b){ return GV_LEQ(VID(a), VID(b)); }
unsigned char _ZNK2GVeqERKS_(GV *a, GV *b){ return __CPROVER_uninterpreted_gv_eq(VID(a), VID(b)) != 0; }
uint64_t _ZN2GV3topEv(void){ return GV_TOPID; }
uint64_t _ZN2GV6bottomEv(void){ return GV_BOTID; }
/* crab::CrabSanityCheckFlag (defined in lib/debug.cpp, default false).  dfcc havocs statics, so the check that
 * depends on it (rename1) sets it in its harness and requires it to be false. */
uint8_t _ZN4crab19CrabSanityCheckFlagE = 0;
/* The two libstdc++ helpers through which std::vector<K> destroys an element, `p->~K()`: K's destructor is virtual
 * (crab::indexable), so the call is an indirect one through the v-table pointer of an element that was loaded from the
 * vector's heap storage, and cbmc's symbolic execution then walks into EVERY function of a compatible type (tree and
 * shared_ptr destructors, recursively; measured: never finishes).  They are devirtualised here: the element must be a
 * genuine K (asserted, not assumed), and for a genuine K the v-table slot is K::~K (slot 0 of _ZTV1K's function part). */
void _ZN1KD2Ev(K *);
void _ZSt8_DestroyI1KEvPT_(K *p){
  __CPROVER_assert(K_OK(p), "std::_Destroy<K>: the element is a genuine K object (v-table pointer of K)");
  _ZN1KD2Ev(p); }
void _ZNSt15__new_allocatorI1KE7destroyIS0_EEvPT_(void *self, K *p){
  __CPROVER_assert(K_OK(p), "allocator<K>::destroy: the element is a genuine K object (v-table pointer of K)");
  _ZN1KD2Ev(p); }
/* std::vector<K>::_M_realloc_insert, the growing path of push_back.  project() reserves size() slots before it pushes
 * at most size() keys, so this path is never taken; its body (allocate, relocate twice, destroy, deallocate) is dropped
 * and reaching it is an OBLIGATION (asserted, not assumed): kept in line it is explored by symbolic execution in every
 * iteration of the tree walk although it is infeasible (measured: 200 000 steps, no back end finishes). */
void _ZNSt6vectorI1KSaIS0_EE17_M_realloc_insertIJRKS0_EEEvN9__gnu_cxx17__normal_iteratorIPS0_S2_EEDpOT_(void *self, K *pos, K *arg){
  __CPROVER_assert(0, "std::vector<K>::push_back does not reallocate (capacity was reserved)");
  __CPROVER_assume(0); }
