/* Specification vocabulary for ikos::separate_domain<K,GV> (include/crab/domains/separate_domains.hpp),
 * instantiated by units/sepdom/force.cpp with a trivial indexable key K and an opaque ghost value GV.
 *
 * SD = { f0 = _is_bottom, f1 = _tree };  PT = patricia_tree = { shared_ptr { f0 = root pointer, f1 = count } }.
 * The tree ALGORITHMS are not verified (DESIGN A.5): a tree is known only through its root pointer and
 * uninterpreted observers of it (the finite map it denotes):
 *   M_has(root,k)  : key index k is bound (never in the null = empty tree)   M_val(root,k) : the value id bound to k
 *   M_size(root)   : number of bindings
 *   M_leq(r1,r2,po): the tree order tree::compare computes for partial-order object class `po`
 *   M_merge(r,r1,r2,op) : r is a root tree::merge may return for operation class `op`
 *   M_mbot(r1,r2,op)    : tree::merge signals bottom
 * Operation / order classes are identified by their v-table pointer (what the object really carries).
 * GV values are handles (field id); the lattice operations on them are uninterpreted (gvmodel.c). */
#ifndef SEPDOM_SPEC_H
#define SEPDOM_SPEC_H
#include "verif.h"
#ifndef __cplusplus
#include "unit_types.h"
typedef struct S_class_ikos__separate_domain SD;
typedef struct S_class_ikos__patricia_tree PT;
typedef struct S_struct_K K;
typedef struct S_struct_GV GV;
typedef struct S_struct_TS TS;
typedef struct S_struct_std__pair PR;            /* std::pair<bool, boost::optional<GV>> */
typedef struct S_class_boost__optional OPT;      /* boost::optional<GV> */
typedef struct S_class_ikos__binary_op BOP;
typedef struct S_class_ikos__partial_order PORD;
#define ROOT(t) ((void *)(t).f0.f0.f0)
#define KIDX(k) ((k)->f1)
#define VID(v) ((v)->f0)
/* ---- ghost value lattice: uninterpreted */
uint64_t __CPROVER_uninterpreted_gv_join(uint64_t, uint64_t);
uint64_t __CPROVER_uninterpreted_gv_meet(uint64_t, uint64_t);
uint64_t __CPROVER_uninterpreted_gv_widen(uint64_t, uint64_t);
uint64_t __CPROVER_uninterpreted_gv_narrow(uint64_t, uint64_t);
uint64_t __CPROVER_uninterpreted_gv_wt(uint64_t, uint64_t, void *);
unsigned char __CPROVER_uninterpreted_gv_istop(uint64_t);
unsigned char __CPROVER_uninterpreted_gv_isbot(uint64_t);
unsigned char __CPROVER_uninterpreted_gv_leq(uint64_t, uint64_t);
unsigned char __CPROVER_uninterpreted_gv_eq(uint64_t, uint64_t);
uint64_t __CPROVER_uninterpreted_gv_const(uint64_t);
#define GV_JOIN(a, b) __CPROVER_uninterpreted_gv_join(a, b)
#define GV_MEET(a, b) __CPROVER_uninterpreted_gv_meet(a, b)
#define GV_WIDEN(a, b) __CPROVER_uninterpreted_gv_widen(a, b)
#define GV_NARROW(a, b) __CPROVER_uninterpreted_gv_narrow(a, b)
#define GV_WT(a, b, ts) __CPROVER_uninterpreted_gv_wt(a, b, (void *)(ts))
#define GV_ISTOP(a) (__CPROVER_uninterpreted_gv_istop(a) != 0)
#define GV_ISBOT(a) (__CPROVER_uninterpreted_gv_isbot(a) != 0)
#define GV_LEQ(a, b) (__CPROVER_uninterpreted_gv_leq(a, b) != 0)
#define GV_TOPID __CPROVER_uninterpreted_gv_const(1)   /* what GV::top() returns */
#define GV_BOTID __CPROVER_uninterpreted_gv_const(0)   /* what GV::bottom() returns */
/* hypothesis on the ghost value lattice, needed where a looked-up default is stored again (project, rename):
 * Value::top() is top and is not bottom */
#define GV_LATTICE_HYP (GV_ISTOP(GV_TOPID) && !GV_ISBOT(GV_TOPID))
/* ---- finite-map observers of a tree root: uninterpreted */
unsigned char __CPROVER_uninterpreted_m_has(void *, uint64_t);
uint64_t __CPROVER_uninterpreted_m_val(void *, uint64_t);
uint64_t __CPROVER_uninterpreted_m_size(void *);
unsigned char __CPROVER_uninterpreted_m_leq(void *, void *, void *);
unsigned char __CPROVER_uninterpreted_m_merge(void *, void *, void *, void *);
unsigned char __CPROVER_uninterpreted_m_mbot(void *, void *, void *);
/* the null root is the EMPTY map (patricia_tree::lookup/find/size test the shared_ptr first): built into M_has.
 * `&`, not `&&`, on purpose: cbmc 6.11 turns `p != 0 && f(..)` (f with a call) into a BRANCH on p != 0, and a branch
 * condition on an invalid pointer such as NULL+2 is decided differently from the same comparison evaluated as an
 * expression (as the translated code does); the mismatch only ever produced spurious failures, never passes. */
#define M_has(r, k) ((int)((r) != (void *)0) & (int)(__CPROVER_uninterpreted_m_has(r, k) != 0))
#define M_val(r, k) __CPROVER_uninterpreted_m_val(r, k)
#define M_size(r) __CPROVER_uninterpreted_m_size(r)
#define M_leq(r1, r2, po) (__CPROVER_uninterpreted_m_leq(r1, r2, po) != 0)
#define M_merge(r, r1, r2, op) (__CPROVER_uninterpreted_m_merge(r, r1, r2, op) != 0)
#define M_mbot(r1, r2, op) (__CPROVER_uninterpreted_m_mbot(r1, r2, op) != 0)
/* ---- v-tables of the operation objects (address point = slot 2 of the table, as the constructors store it) */
#define VT_DECL(cls) extern struct anon_f0db2cc371 _ZTVN4ikos15separate_domainI1K2GVSt8equal_toIS2_EE##cls
VT_DECL(7join_opE); VT_DECL(11widening_opE); VT_DECL(7meet_opE); VT_DECL(12narrowing_opE); VT_DECL(9domain_poE);
VT_DECL(22widening_thresholds_opI2TSEE);
#define VT(cls) ((void *)&_ZTVN4ikos15separate_domainI1K2GVSt8equal_toIS2_EE##cls.f0.a[2])
#define VT_join VT(7join_opE)
#define VT_widen VT(11widening_opE)
#define VT_meet VT(7meet_opE)
#define VT_narrow VT(12narrowing_opE)
#define VT_po VT(9domain_poE)
#define VT_wt VT(22widening_thresholds_opI2TSEE)
#define VPTR(o) ((void *)(o)->f0)
/* ---- set containers: patricia_tree<K,bool>, patricia_tree_set<K>, discrete_domain<K>.
 * (the numeric suffixes are LLVM's type numbering for this forcing TU; look them up in unit_types.h if force.cpp changes) */
typedef struct S_class_ikos__patricia_tree_12 PTB;            /* patricia_tree<K,bool> */
typedef struct S_class_ikos__patricia_tree_set PS;            /* f0 = _tree */
typedef struct S_class_ikos__discrete_domain DD;              /* f0 = m_is_top, f1 = m_set */
typedef struct S_class_ikos__partial_order_47 PORDB;          /* partial_order<bool> */
typedef struct S_class_ikos__patricia_tree_set_K___subset_po OP_subset;
extern struct anon_f0db2cc371 _ZTVN4ikos17patricia_tree_setI1KE9subset_poE;
#define VT_subset ((void *)&_ZTVN4ikos17patricia_tree_setI1KE9subset_poE.f0.a[2])
#define SROOT(s) ROOT((s).f0)                                 /* root of a patricia_tree_set */
/* element e is in the set denoted by root r: bound, to true */
#define S_in(r, e) (M_has(r, e) && (M_val(r, e) & 1) != 0)
#define S_sub(r1, r2) M_leq(r1, r2, VT_subset)
/* operation objects of the set containers (handed to patricia_tree<K,bool>::merge_with) */
typedef struct S_class_ikos__binary_op_59 BOPB;               /* binary_op<K,bool> */
typedef struct S_class_ikos__patricia_tree_set_K___union_op OP_union;
typedef struct S_class_ikos__patricia_tree_set_K___intersection_op OP_inter;
extern struct anon_f0db2cc371 _ZTVN4ikos17patricia_tree_setI1KE8union_opE;
extern struct anon_f0db2cc371 _ZTVN4ikos17patricia_tree_setI1KE15intersection_opE;
#define VT_union ((void *)&_ZTVN4ikos17patricia_tree_setI1KE8union_opE.f0.a[2])
#define VT_inter ((void *)&_ZTVN4ikos17patricia_tree_setI1KE15intersection_opE.f0.a[2])
/* representation invariant of a set container at key e: a bound key is bound to TRUE (nothing ever stores false) */
#define PS_INV_AT(r, e) (!M_has(r, e) || (M_val(r, e) & 1) != 0)
/* discrete_domain: top = the set of ALL elements (flag), otherwise the finite set m_set; a top carries an empty set */
static inline bool dd_ok(const DD *x){ return x->f0 <= 1 && (x->f0 == 0 || SROOT(x->f1) == 0); }
static inline bool dd_top(const DD *x){ return x->f0 != 0; }
/* element e is in the set a discrete_domain denotes: every element is in top */
#define DD_in(x, e) (dd_top(x) || S_in(SROOT((x)->f1), e))
/* ---- environments */
static inline bool sd_ok(const SD *x){ return x->f0 <= 1; }
static inline bool sd_bot(const SD *x){ return x->f0 != 0; }
/* same abstract value: same flag, same tree */
static inline bool sd_same(const SD *x, unsigned char bot, void *root){ return x->f0 == bot && ROOT(x->f1) == root; }
/* ---- the environment as a TOTAL map with default top (the reading of property C19): the value looked up at key k */
#define AT_ROOT(root, k) (M_has(root, k) ? M_val(root, k) : GV_TOPID)
/* representation invariant of separate_domain at key k: a binding is never top and never bottom (set() removes the key
 * for top and makes the whole environment bottom for bottom; the merge operation objects do the same: join_apply ..) */
#define SD_INV_AT(root, k) (!M_has(root, k) || (!GV_ISTOP(M_val(root, k)) && !GV_ISBOT(M_val(root, k))))
/* ---- iteration (patricia_tree::iterator): ASSUMED to list the finite map.  The listing of a root is known through two
 * more uninterpreted observers:  M_key(root,i) = the key listed at position i (0 <= i < M_size(root)),
 * M_idx(root,k) = the position at which key k is listed.  An iterator is an abstract pair (root, position); the pair is
 * carried in the first two words of the iterator object (its _current shared_ptr), which nothing else reads because
 * every function that looks inside an iterator (begin, end, ++, !=, ->, destructor) is dropped and replaced by its
 * contract.  end() is (null, 0); an iterator is AT END when its root is null or its position has reached M_size. */
uint64_t __CPROVER_uninterpreted_m_key(void *, uint64_t);
uint64_t __CPROVER_uninterpreted_m_idx(void *, uint64_t);
#define M_key(r, i) __CPROVER_uninterpreted_m_key(r, i)
#define M_idx(r, k) __CPROVER_uninterpreted_m_idx(r, k)
/* a genuine K object carries K's v-table pointer (std::_Destroy of a std::vector<K> calls the virtual destructor) */
extern const struct anon_f0db2cc371 _ZTV1K;
#define VT_K ((void *)&_ZTV1K.f0.a[2])
#define K_OK(k) ((void *)(k)->f0.f0 == VT_K)
typedef struct S_class_ikos__patricia_tree_K__GV___iterator IT;
typedef struct S_class_boost__iterators__iterator_facade ITF;               /* empty base: the pointer IS the iterator */
typedef struct S_class_boost__iterators__detail__iterator_facade_base ITB;  /* empty base: the pointer IS the iterator */
typedef struct anon_33d47aef52 BND;                                           /* binding_t = { const K &first; const GV &second; } */
#define IT_ROOT(it) ((void *)((const IT *)(it))->f0.f0.f0.f0)
#define IT_POS(it) (*(const uint64_t *)&((const IT *)(it))->f0.f0.f0.f1)
#define IT_ATEND(it) (IT_ROOT(it) == (void *)0 || IT_POS(it) >= M_size(IT_ROOT(it)))
#define IT_EQ(a, b) ((IT_ATEND(a) && IT_ATEND(b)) || (!IT_ATEND(a) && !IT_ATEND(b) && IT_ROOT(a) == IT_ROOT(b) && IT_POS(a) == IT_POS(b)))
/* boost::optional<GV>: f0.f0 = m_initialized, f0.f2 = storage */
static inline bool opt_some(const OPT *o){ return o->f0.f0 != 0; }
static inline uint64_t opt_val(const OPT *o){ return *(const uint64_t *)&o->f0.f2; }
#endif
#endif
