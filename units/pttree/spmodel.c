/* Model of std::shared_ptr reference-count RELEASE for unit pttree (the libstdc++ body is dropped: unit.json
 * override.drop).  ASSUMPTION, stated in unit.json: memory is never reclaimed in the model.  Dropping the last
 * reference to a tree node does not run ~node / ~leaf and does not free the block.  Everything else of shared_ptr
 * is the real libstdc++ code: the stored pointer, copies, moves, swaps, comparisons, make_shared (allocation +
 * construction in place) and the reference-count INCREMENT.  Sharing and aliasing of subtrees are therefore exactly
 * those of the real code (merge/insert/remove return shared subtrees, `new_lb == lb` tests see real pointers);
 * what is NOT checked is that the counts are balanced (no use-after-free, no leak).
 * Reason (measured, DESIGN A.5 and again with mem2reg + deterministic allocation): with the real _M_release the
 * symbolic execution explores _M_release -> _M_dispose -> ~node -> ~shared_ptr -> _M_release ... for every
 * possible count value and both dynamic types at every level; 2 inserts + lookup: no result in 15 minutes. */
#include "unit_types.h"
void _ZNSt16_Sp_counted_baseILN9__gnu_cxx12_Lock_policyE2EE10_M_releaseEv(struct S_class_std___Sp_counted_base *self) { (void)self; }
/* Typed allocation of the make_shared control blocks (the libstdc++ __new_allocator<..>::allocate bodies are dropped):
 * the real body is `operator new(n * sizeof(T))` with n == 1; the model returns a fresh object of exactly that
 * size that never is null (same assumption as models/rt_detalloc.c) but of the STRUCT type, so that cbmc keeps the
 * fields (v-table pointer, branches, prefix ...) as separate symbols instead of bytes of a char array (measured:
 * without it the dynamic type of a subtree is not resolved during symbolic execution and every virtual call forks). */
/* the numeric suffixes are LLVM's type numbering for THIS forcing TU (look them up in unit_types.h / the prototypes at the top of unit.c
 * if force.cpp changes; a mismatch is a link fault, never a verdict) */
#define CB_LEAF struct S_class_std___Sp_counted_ptr_inplace
#define CB_NODE struct S_class_std___Sp_counted_ptr_inplace_24
#define AL_LEAF struct S_class_std____new_allocator_15
#define AL_NODE struct S_class_std____new_allocator_21
#define ALLOC_LEAF _ZNSt15__new_allocatorISt23_Sp_counted_ptr_inplaceIN4ikos19patricia_trees_impl4leafI1K1VSt8equal_toIS5_EEESaIvELN9__gnu_cxx12_Lock_policyE2EEE8allocateEmPKv
#define ALLOC_NODE _ZNSt15__new_allocatorISt23_Sp_counted_ptr_inplaceIN4ikos19patricia_trees_impl4nodeI1K1VSt8equal_toIS5_EEESaIvELN9__gnu_cxx12_Lock_policyE2EEE8allocateEmPKv
CB_LEAF *ALLOC_LEAF(AL_LEAF *a, uint64_t n, uint8_t *hint) {
  __CPROVER_assert(n == 1, "make_shared allocates exactly one control block");
  return __CPROVER_allocate(sizeof(CB_LEAF), 0);
}
CB_NODE *ALLOC_NODE(AL_NODE *a, uint64_t n, uint8_t *hint) {
  __CPROVER_assert(n == 1, "make_shared allocates exactly one control block");
  return __CPROVER_allocate(sizeof(CB_NODE), 0);
}
/* reference-count INCREMENT: no-op as well (see above: counts are not modelled at all; nothing in the tree code reads them) */
void _ZNSt16_Sp_counted_baseILN9__gnu_cxx12_Lock_policyE2EE15_M_add_ref_copyEv(struct S_class_std___Sp_counted_base *self) { (void)self; }
