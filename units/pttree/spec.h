/* Specification vocabulary for the patricia tree ALGORITHMS (unit pttree): a finite map is MODELLED by the list of
 * (key, value) pairs it was built from (MIn: the harness inserts pairs 0..n-1 in order with the REAL insert), and
 * every operation under test is compared POINTWISE with the obvious model over that list:
 *   m_has(a,c) / m_val(a,c)         the binding of key c after the inserts (the LAST pair with key c wins)
 *   m_size(a)                       number of distinct keys (keys are < PT_KEYS in every harness)
 *   m_leq(a,b,dtop)                 pointwise order with missing = top (dtop) or missing = bottom (!dtop)
 *   mrg_has/mrg_val/mrg_bot(op,..)  pointwise result of merge_with under max_op / min_op / widen_op / first_op
 * Plain C that is also valid C++ (the native replay evaluates the same functions). */
#ifndef PTTREE_SPEC_H
#define PTTREE_SPEC_H
#include "verif.h"
#define PT_TOPV 255
#define PT_NMAX 4   /* capacity of a model list */
#define PT_KEYS 8   /* all harness keys are < 8 (3 bits: branching bits 1, 2, 4; tree depth <= 3) */
typedef struct MIn { uint64_t n; uint64_t k[PT_NMAX]; uint64_t v[PT_NMAX]; } MIn;
enum { OP_MAX = 0, OP_MIN = 1, OP_WIDEN = 2, OP_FIRST = 3 };

static inline bool m_at(const MIn *a, unsigned i, uint64_t c){ return a->n > i && a->k[i] == c; }
static inline bool m_has(const MIn *a, uint64_t c){ return m_at(a, 0, c) || m_at(a, 1, c) || m_at(a, 2, c) || m_at(a, 3, c); }
static inline uint64_t m_val(const MIn *a, uint64_t c){
  return m_at(a, 3, c) ? a->v[3] : m_at(a, 2, c) ? a->v[2] : m_at(a, 1, c) ? a->v[1] : a->v[0]; }
static inline uint64_t m_size(const MIn *a){
  return (uint64_t)m_has(a, 0) + m_has(a, 1) + m_has(a, 2) + m_has(a, 3) + m_has(a, 4) + m_has(a, 5) + m_has(a, 6) + m_has(a, 7); }
/* shape of a harness input: at most nb pairs, keys < PT_KEYS */
static inline bool m_bounded(const MIn *a, uint64_t nb){
  return a->n <= nb && nb <= PT_NMAX && a->k[0] < PT_KEYS && a->k[1] < PT_KEYS && a->k[2] < PT_KEYS && a->k[3] < PT_KEYS; }
/* ---- inclusion, pointwise.  default_is_top (environments): a key missing on the right is top, so every key bound on
 * the right must be bound on the left to a smaller value.  !default_is_top (sets, missing = bottom): every key bound
 * on the left must be bound on the right to a larger value. */
static inline bool leq_at(const MIn *a, const MIn *b, bool dtop, uint64_t c){
  return dtop ? (!m_has(b, c) || (m_has(a, c) && m_val(a, c) <= m_val(b, c)))
              : (!m_has(a, c) || (m_has(b, c) && m_val(a, c) <= m_val(b, c))); }
static inline bool m_leq(const MIn *a, const MIn *b, bool dtop){
  return leq_at(a, b, dtop, 0) && leq_at(a, b, dtop, 1) && leq_at(a, b, dtop, 2) && leq_at(a, b, dtop, 3) &&
         leq_at(a, b, dtop, 4) && leq_at(a, b, dtop, 5) && leq_at(a, b, dtop, 6) && leq_at(a, b, dtop, 7); }
/* ---- merge, pointwise: a is *this (left operand of apply), b the argument */
static inline bool op_absorbing(int op){ return op == OP_MAX || op == OP_WIDEN; }
static inline uint64_t op_val(int op, uint64_t x, uint64_t y){
  return op == OP_MAX ? (x < y ? y : x) : op == OP_MIN ? (x < y ? x : y) : x; }
static inline bool op_top(int op, uint64_t x, uint64_t y){   /* apply answers "top": the binding is dropped */
  return op == OP_MAX ? op_val(op, x, y) >= PT_TOPV : op == OP_WIDEN ? !(y <= x) : false; }
static inline bool op_bot(int op, uint64_t x, uint64_t y){   /* apply signals bottom */
  return op == OP_MIN && op_val(op, x, y) == 0; }
static inline bool mrg_has(int op, const MIn *a, const MIn *b, uint64_t c){
  return (m_has(a, c) && m_has(b, c)) ? !op_top(op, m_val(a, c), m_val(b, c)) : ((m_has(a, c) || m_has(b, c)) && !op_absorbing(op)); }
static inline uint64_t mrg_val(int op, const MIn *a, const MIn *b, uint64_t c){
  return (m_has(a, c) && m_has(b, c)) ? op_val(op, m_val(a, c), m_val(b, c)) : m_has(a, c) ? m_val(a, c) : m_val(b, c); }
static inline bool bot_at(int op, const MIn *a, const MIn *b, uint64_t c){ return m_has(a, c) && m_has(b, c) && op_bot(op, m_val(a, c), m_val(b, c)); }
static inline bool mrg_bot(int op, const MIn *a, const MIn *b){
  return bot_at(op, a, b, 0) || bot_at(op, a, b, 1) || bot_at(op, a, b, 2) || bot_at(op, a, b, 3) ||
         bot_at(op, a, b, 4) || bot_at(op, a, b, 5) || bot_at(op, a, b, 6) || bot_at(op, a, b, 7); }
static inline uint64_t mrg_size(int op, const MIn *a, const MIn *b){
  return (uint64_t)mrg_has(op, a, b, 0) + mrg_has(op, a, b, 1) + mrg_has(op, a, b, 2) + mrg_has(op, a, b, 3) +
         mrg_has(op, a, b, 4) + mrg_has(op, a, b, 5) + mrg_has(op, a, b, 6) + mrg_has(op, a, b, 7); }
/* ---- transform under inc_op: x -> x + 1, dropped when x + 1 >= PT_TOPV */
static inline bool inc_has(const MIn *a, uint64_t c){ return m_has(a, c) && !(m_val(a, c) + 1 >= PT_TOPV); }
static inline uint64_t inc_size(const MIn *a){
  return (uint64_t)inc_has(a, 0) + inc_has(a, 1) + inc_has(a, 2) + inc_has(a, 3) + inc_has(a, 4) + inc_has(a, 5) + inc_has(a, 6) + inc_has(a, 7); }
/* ---- remove of key r */
static inline bool rem_has(const MIn *a, uint64_t r, uint64_t c){ return c != r && m_has(a, c); }

#ifndef __cplusplus
#include "unit_types.h"
typedef struct S_class_ikos__patricia_tree PT;          /* f0 = _tree (shared_ptr: f0.f0 = raw pointer, f0.f1 = count block) */
typedef struct S_struct_K K;                            /* f1 = index */
typedef struct S_struct_V V;                            /* f0 = the integer */
typedef struct S_class_boost__optional OPT;             /* boost::optional<V>: f0.f0 = m_initialized, f0.f2 = storage */
typedef struct S_class_ikos__binary_op BOP;
typedef struct S_class_ikos__partial_order PORD;
typedef struct S_class_ikos__unary_op UOP;
typedef struct S_struct_max_op MAXOP;
typedef struct S_struct_min_op MINOP;
typedef struct S_struct_widen_op WIDENOP;
typedef struct S_struct_first_op FIRSTOP;
typedef struct S_struct_le_po LEPO;
typedef struct S_struct_inc_op INCOP;
typedef struct S_struct_PTIter PTIter;                  /* f0 = steps, f1.a[c] = cnt, f2.a[c] = val, f3 = other */
#define ROOT(t) ((void *)(t).f0.f0.f0)
static inline bool opt_some(const OPT *o){ return o->f0.f0 != 0; }
static inline uint64_t opt_val(const OPT *o){ return *(const uint64_t *)&o->f0.f2; }
/* harness shims of force.cpp */
void pt_new(PT *t); void pt_copy(PT *t, PT *o); void k_new(K *k, uint64_t i); void v_new(V *v, uint64_t x);
void max_op_new(MAXOP *o); void min_op_new(MINOP *o); void widen_op_new(WIDENOP *o); void first_op_new(FIRSTOP *o);
void le_po_new(LEPO *o, unsigned char dtop); void inc_op_new(INCOP *o);
void pt_transform(PT *t, INCOP *o); void pt_iterate(PTIter *r, PT *t, uint64_t max);
#endif
#endif
