// Forcing TU for the patricia tree ALGORITHMS (include/crab/domains/patricia_trees.hpp):
// ikos::patricia_tree<K,V> and ikos::patricia_trees_impl::tree/node/leaf<K,V> -- insert, lookup, find, remove,
// merge (merge_with), compare (leq), size, transform, the iterator -- and patricia_tree_set<K>.
//
// What is in here and why (nothing of it is a re-implementation of tree code):
//  * K: a trivial indexable key (its index is its field).  `final`, so that key.index() is a direct call.
//  * V: a tiny value type (one integer, operator==).
//  * concrete operation objects with simple, fully defined semantics (the tree algorithms are generic in them):
//      max_op   join-like : apply = max, a result >= PT_TOPV is "top" (binding dropped), missing = top is ABSORBING
//      min_op   meet-like : apply = min, a result == 0 is "bottom" (signalled), missing = top is NEUTRAL
//      widen_op asymmetric: apply(x,y) = x if y <= x, otherwise top (dropped); ABSORBING  (argument order matters)
//      first_op asymmetric: apply(x,y) = x; NEUTRAL                                        (argument order matters)
//      le_po    order     : leq(x,y) = x <= y, default_is_top() = the flag it was built with
//      inc_op   unary     : apply(x) = x + 1, or "remove the binding" when x + 1 >= PT_TOPV (for transform)
//  * one-line extern "C" shims used by the HARNESSES to build inputs and to observe results with the real classes
//    (construct a key / value / operation object in caller-provided storage, iterate begin()..end()).
// The contracts (contracts.c) are stated on the REAL mangled member functions.
#include <crab/domains/patricia_trees.hpp>
#include <new>
using ikos::index_t;
#define PT_TOPV 255
struct K final : public crab::indexable {
  index_t i;
  K(index_t x) : i(x) {}
  index_t index() const override { return i; }
  void write(crab::crab_os &o) const override {}
};
struct V {
  uint64_t v;
  V(uint64_t x) : v(x) {}
  bool operator==(const V &o) const { return v == o.v; }
};
typedef ikos::patricia_tree<K, V> PT;
typedef boost::optional<V> OV;
typedef std::pair<bool, boost::optional<V>> RES;
struct max_op final : public PT::binary_op_t {
  RES apply(const K &, const V &x, const V &y) override {
    uint64_t m = x.v < y.v ? y.v : x.v;
    if (m >= PT_TOPV) return {false, OV()};
    return {false, OV(V(m))};
  }
  bool default_is_absorbing() override { return true; }
};
struct min_op final : public PT::binary_op_t {
  RES apply(const K &, const V &x, const V &y) override {
    uint64_t m = x.v < y.v ? x.v : y.v;
    if (m == 0) return {true, OV()};
    return {false, OV(V(m))};
  }
  bool default_is_absorbing() override { return false; }
};
struct widen_op final : public PT::binary_op_t {
  RES apply(const K &, const V &x, const V &y) override {
    if (y.v <= x.v) return {false, OV(x)};
    return {false, OV()};
  }
  bool default_is_absorbing() override { return true; }
};
struct first_op final : public PT::binary_op_t {
  RES apply(const K &, const V &x, const V &) override { return {false, OV(x)}; }
  bool default_is_absorbing() override { return false; }
};
struct le_po final : public PT::partial_order_t {
  bool dtop;
  le_po(bool t) : dtop(t) {}
  bool leq(const V &x, const V &y) override { return x.v <= y.v; }
  bool default_is_top() override { return dtop; }
};
struct inc_op final : public PT::unary_op_t {
  OV apply(const V &x) override {
    if (x.v + 1 >= PT_TOPV) return OV();
    return OV(V(x.v + 1));
  }
};
// what an iteration begin()..end() lists: number of steps, and for each key < 8 how often it was listed and with
// which value (last one)
struct PTIter {
  uint64_t steps;
  uint64_t cnt[8];
  uint64_t val[8];
  uint64_t other; // bindings listed with a key >= 8
};
extern "C" {
void pt_new(PT *t) { new (t) PT(); }
void pt_copy(PT *t, const PT *o) { new (t) PT(*o); }
void k_new(K *k, uint64_t i) { new (k) K(i); }
void v_new(V *v, uint64_t x) { new (v) V(x); }
void max_op_new(max_op *o) { new (o) max_op(); }
void min_op_new(min_op *o) { new (o) min_op(); }
void widen_op_new(widen_op *o) { new (o) widen_op(); }
void first_op_new(first_op *o) { new (o) first_op(); }
void le_po_new(le_po *o, bool dtop) { new (o) le_po(dtop); }
void inc_op_new(inc_op *o) { new (o) inc_op(); }
void pt_transform(PT *t, inc_op *o) { t->transform(*o); }
// the real iterator: begin(), operator!=, operator*, operator++ until end(); at most `max` steps are taken
void pt_iterate(PTIter *r, const PT *t, uint64_t max) {
  r->steps = 0;
  r->other = 0;
  r->cnt[0] = r->cnt[1] = r->cnt[2] = r->cnt[3] = r->cnt[4] = r->cnt[5] = r->cnt[6] = r->cnt[7] = 0;
  r->val[0] = r->val[1] = r->val[2] = r->val[3] = r->val[4] = r->val[5] = r->val[6] = r->val[7] = 0;
  PT::iterator it = t->begin(), e = t->end();
  while (it != e && r->steps < max) {
    PT::binding_t b = *it;
    uint64_t k = b.first.index();
    if (k < 8) { r->cnt[k]++; r->val[k] = b.second.v; } else { r->other++; }
    r->steps++;
    ++it;
  }
  if (it != e) r->steps = max + 1; // not finished after `max` steps
}
}
// force the member functions the harnesses name (templates are instantiated by use)
template class ikos::patricia_tree<K, V>;
