/* Unit pttree: BOUNDED checks of the real patricia tree algorithms (patricia_trees.hpp: patricia_tree<K,V> and
 * patricia_trees_impl::tree / node / leaf) -- properties C19 (finite maps: lookup after set / forget / join / meet is
 * the pointwise result, iteration lists every binding once, inclusion holds exactly when it holds pointwise) and C04
 * (the inclusion test).  They stand in, on small instances, for the finite-map contracts that unit sepdom ASSUMES of
 * insert / remove / lookup / find / size / merge_with / leq.
 *
 * Form of a check.  The harness builds the operand trees with the REAL insert from lists of symbolic (key, value)
 * pairs (file-scope ghosts g_a, g_b: the MODEL), runs the REAL operation under test (remove, transform, merge_with,
 * leq, the iterator) and observes the outcome with the REAL find / size / lookup at an ARBITRARY ghost key g_q; every
 * observation is compared with the pointwise model of spec.h.  The last observation, patricia_tree::lookup, is the
 * call the contract is ENFORCED on (dfcc admits exactly one call of the enforced function per run, and keeping the
 * tree construction outside of it keeps the frame instrumentation small: measured, the same scenario inside one
 * enforced function needs 12M variables instead of 2.5M); its postcondition is stated over the scenario's expected
 * map x_has / x_val, selected by SCN.  The other observations are harness assertions.
 *
 * EVERY check below is BOUNDED (bounded= key): the number of pairs per tree (vary=: NA for one tree, NN = 3*NA + NB for
 * two trees) and keys < 8 are fixed by the harness.  Keys and values are symbolic
 * (values: any 64-bit number), so within the bound all key coincidences, all tree shapes and all insertion orders
 * are covered.
 * unwind=5: the only loops are highest_bit (<= 3 doublings for 3-bit keys) and the iteration (<= 3 steps); the
 * recursion of insert / merge / compare / remove / transform is at most 2 deep on <= 2 bindings, node::lookup / find
 * do not nest at all (--unwindset); all unwinding assertions are PROVED, so these bounds are not assumptions.
 * The exact recursion bounds matter for cost, not for soundness: a pointer that may be null or may point to objects
 * of two dynamic types makes cbmc's symbolic execution follow every virtual call into every override, so each extra
 * level of unwinding multiplies the formula (measured: lookup after 2 inserts, unwind 5 everywhere: 10M variables,
 * 4 minutes; with the bounds below: 2.5M, 35 s).
 * Three further families follow the symbolic ones: `deep_*` (concrete key sets of up to 4 keys, symbolic values: nested
 * nodes), and at the end the UNBOUNDED leaf-level contracts. */
#include "spec.h"
#define PTN(x) _ZN4ikos13patricia_treeI1K1VSt8equal_toIS2_EE##x
#define PTK(x) _ZNK4ikos13patricia_treeI1K1VSt8equal_toIS2_EE##x
#define PT_SIZE PTK(4sizeEv)
#define PT_LOOKUP PTK(6lookupERKS1_)
#define PT_FIND PTK(4findERKS1_)
#define PT_INSERT PTN(6insertERKS1_RKS2_)
#define PT_REMOVE PTN(6removeERKS1_)
#define PT_MERGE PTN(10merge_withERKS5_RNS_9binary_opIS1_S2_EE)
#define PT_LEQ PTK(3leqERKS5_RNS_13partial_orderIS2_EE)
#define PT_TRANSFORM PTN(9transformERNS_8unary_opIS2_EE)
/* real functions called by the harnesses (lowered signatures) */
uint64_t PT_SIZE(PT *self);
V *PT_FIND(PT *self, K *key);
void PT_INSERT(PT *self, K *key, V *value);
void PT_REMOVE(PT *self, K *key);
unsigned char PT_MERGE(PT *self, PT *t, BOP *op);
unsigned char PT_LEQ(PT *self, PT *t, PORD *po);
void PT_TRANSFORM(PT *self, UOP *op);
/* sizes of the model lists: EXACT and compile-time constant in every run (vary=): NA for one tree, NN = 3*NA + NB for
 * two trees, each 0..2.  (Measured: a symbolic count, i.e. a root that is "null or a leaf" for the symbolic execution,
 * costs more than the sum of the exact cases: leq with counts <= 1 on both sides needs 640 s of symbolic execution,
 * the four exact cases 30 s each.)  NN = 8, i.e. (2, 2), is NOT run: no back end answers within 40 minutes; two-leaf
 * nodes on both sides are covered by the concrete key sets below. */
#ifdef NN
#define NA (NN / 3)
#define NB (NN % 3)
#endif
#ifndef NA
#define NA 2
#endif
#ifndef NB
#define NB 2
#endif
#define NA_LO NA
#define NA_HI NA
#define NB_LO NB
#define NB_HI NB
#ifndef OPK
#define OPK OP_MAX
#endif
#ifndef DTOP
#define DTOP 1
#endif
#define SC_BUILD 0
#define SC_REMOVE 1
#define SC_TRANSFORM 2
#define SC_MERGE 3
#ifndef SCN
#define SCN SC_BUILD
#endif
/* file-scope ghosts: the model lists of the operand trees, the key removed, the key observed */
MIn g_a, g_b;
uint64_t g_k, g_q;
/* the map the scenario SCN must produce in the observed tree, pointwise */
static inline bool x_has(uint64_t c){
  return SCN == SC_REMOVE ? rem_has(&g_a, g_k, c) : SCN == SC_TRANSFORM ? inc_has(&g_a, c) :
         SCN == SC_MERGE ? (mrg_bot(OPK, &g_a, &g_b) ? m_has(&g_a, c) : mrg_has(OPK, &g_a, &g_b, c)) : m_has(&g_a, c); }
static inline uint64_t x_val(uint64_t c){
  return SCN == SC_TRANSFORM ? m_val(&g_a, c) + 1 :
         SCN == SC_MERGE ? (mrg_bot(OPK, &g_a, &g_b) ? m_val(&g_a, c) : mrg_val(OPK, &g_a, &g_b, c)) : m_val(&g_a, c); }
static inline uint64_t x_size(void){
  return (uint64_t)x_has(0) + x_has(1) + x_has(2) + x_has(3) + x_has(4) + x_has(5) + x_has(6) + x_has(7); }

/* ---- the enforced contract: lookup(k) returns the binding of k in the expected map, if any */
void PT_LOOKUP(OPT *ret, PT *self, K *key)
__CPROVER_requires(FRESH(lookup, ret, sizeof(OPT)) && FRESH(lookup, self, sizeof(PT)) && FRESH(lookup, key, sizeof(K)))
__CPROVER_assigns(*ret)
__CPROVER_ensures(ret->f0.f0 <= 1 && opt_some(ret) == x_has(key->f1))
__CPROVER_ensures(!opt_some(ret) || opt_val(ret) == x_val(key->f1));

/* ---- harness helpers */
/* an arbitrary model list of lo..hi pairs, keys < 8 (when lo == hi the count is a syntactic constant) */
#define GIN(g, lo, hi) { MIn tmp_##g; if ((lo) == (hi)) tmp_##g.n = (hi); g = tmp_##g; } static MIn wit_##g; wit_##g = g; __CPROVER_assume(g.n >= (lo) && m_bounded(&g, hi))
/* a model list with the CONCRETE key set `mask` (bit c = key c, at most PT_NMAX keys) and arbitrary values */
#define PUTK(g, mask, c) if (((mask) >> (c)) & 1) { g.k[g.n] = (c); g.n++; }
#define GMASK(g, mask) { MIn tmp_##g; g = tmp_##g; g.n = 0; g.k[0] = g.k[1] = g.k[2] = g.k[3] = 0; \
  PUTK(g, mask, 0) PUTK(g, mask, 1) PUTK(g, mask, 2) PUTK(g, mask, 3) PUTK(g, mask, 4) PUTK(g, mask, 5) PUTK(g, mask, 6) PUTK(g, mask, 7) } \
  static MIn wit_##g; wit_##g = g
static void put(PT *t, uint64_t k, uint64_t v){ K kk; V vv; k_new(&kk, k); v_new(&vv, v); PT_INSERT(t, &kk, &vv); }
/* hi: compile-time bound of a->n (so that the symbolic execution does not walk through inserts that the harness
 * assumption excludes) */
#define build(t, a, hi) { pt_new(t); \
  if ((hi) > 0 && (a)->n > 0) put(t, (a)->k[0], (a)->v[0]); \
  if ((hi) > 1 && (a)->n > 1) put(t, (a)->k[1], (a)->v[1]); \
  if ((hi) > 2 && (a)->n > 2) put(t, (a)->k[2], (a)->v[2]); \
  if ((hi) > 3 && (a)->n > 3) put(t, (a)->k[3], (a)->v[3]); }
/* observe tree t at key q with the real find */
#define FIND_IS(t, q, has, val, what) { K kq_; k_new(&kq_, q); V *p_ = PT_FIND(t, &kq_); \
  __CPROVER_assert((p_ != 0) == (has), what ": find finds exactly the bound keys"); \
  __CPROVER_assert(p_ == 0 || p_->f0 == (val), what ": find returns the bound value"); }
/* the closing observation: find, size, emptiness and (enforced) lookup of the expected map in t at the ghost key */
#define OBSERVE_X(t, what) { FIND_IS(t, g_q, x_has(g_q), x_val(g_q), what); \
  __CPROVER_assert(PT_SIZE(t) == x_size(), what ": size() is the number of bindings"); \
  __CPROVER_assert((ROOT(*(t)) == 0) == (x_size() == 0), what ": the tree is empty exactly if nothing is bound"); \
  K kl_; OPT rl_; k_new(&kl_, g_q); PT_LOOKUP(&rl_, t, &kl_); }

/* ===================== one tree ===================== */
/* insert, then lookup / find / size: the LAST pair inserted for a key wins, other keys are not disturbed */
/* BOUNDED */
//@check id=build fn=_ZNK4ikos13patricia_treeI1K1VSt8equal_toIS2_EE6lookupERKS1_ props=C19 tag=lookup unwind=5 backends=minisat,kissat first_timeout=600 timeout=900 timeout_thorough=2400 defs=SCN=SC_BUILD vary=NA:0-2 bounded="<=2 bindings, keys < 8" cbmc=--unwindset,_ZNK4ikos19patricia_trees_impl4nodeI1K1VSt8equal_toIS3_EE6lookupERKS2_:1,--unwindset,_ZNK4ikos19patricia_trees_impl4nodeI1K1VSt8equal_toIS3_EE4findERKS2_:1,--unwindset,_ZN4ikos19patricia_trees_impl4treeI1K1VSt8equal_toIS3_EE6insertESt10shared_ptrIS6_ERKS2_RKS3_RNS_9binary_opIS2_S3_EEb:2,--unwindset,_ZN4ikos19patricia_trees_impl4treeI1K1VSt8equal_toIS3_EE5mergeESt10shared_ptrIS6_ES8_RNS_9binary_opIS2_S3_EEb:2,--unwindset,_ZN4ikos19patricia_trees_impl4treeI1K1VSt8equal_toIS3_EE7compareESt10shared_ptrIS6_ES8_RNS_13partial_orderIS3_EEb:2,--unwindset,_ZN4ikos19patricia_trees_impl4treeI1K1VSt8equal_toIS3_EE6removeESt10shared_ptrIS6_ERKS2_:2,--unwindset,_ZN4ikos19patricia_trees_impl4treeI1K1VSt8equal_toIS3_EE9transformESt10shared_ptrIS6_ERNS_8unary_opIS3_EE:2,--unwindset,_ZN4ikos19patricia_trees_impl4treeI1K1VSt8equal_toIS3_EE8iterator18look_for_next_leafESt10shared_ptrIS6_E:2
void h_build(void){ GIN(g_a, NA_LO, NA_HI); GHOSTG(uint64_t, g_q); PT t; build(&t, &g_a, NA_HI); OBSERVE_X(&t, "insert"); REACH; }
/* remove of g_k: afterwards g_k is unbound, every other key is as before */
/* BOUNDED */
//@check id=remove fn=_ZNK4ikos13patricia_treeI1K1VSt8equal_toIS2_EE6lookupERKS1_ props=C19 tag=lookup unwind=5 backends=minisat,kissat first_timeout=600 timeout=900 timeout_thorough=2400 defs=SCN=SC_REMOVE vary=NA:0-2 bounded="<=2 bindings, keys < 8" cbmc=--unwindset,_ZNK4ikos19patricia_trees_impl4nodeI1K1VSt8equal_toIS3_EE6lookupERKS2_:1,--unwindset,_ZNK4ikos19patricia_trees_impl4nodeI1K1VSt8equal_toIS3_EE4findERKS2_:1,--unwindset,_ZN4ikos19patricia_trees_impl4treeI1K1VSt8equal_toIS3_EE6insertESt10shared_ptrIS6_ERKS2_RKS3_RNS_9binary_opIS2_S3_EEb:2,--unwindset,_ZN4ikos19patricia_trees_impl4treeI1K1VSt8equal_toIS3_EE5mergeESt10shared_ptrIS6_ES8_RNS_9binary_opIS2_S3_EEb:2,--unwindset,_ZN4ikos19patricia_trees_impl4treeI1K1VSt8equal_toIS3_EE7compareESt10shared_ptrIS6_ES8_RNS_13partial_orderIS3_EEb:2,--unwindset,_ZN4ikos19patricia_trees_impl4treeI1K1VSt8equal_toIS3_EE6removeESt10shared_ptrIS6_ERKS2_:2,--unwindset,_ZN4ikos19patricia_trees_impl4treeI1K1VSt8equal_toIS3_EE9transformESt10shared_ptrIS6_ERNS_8unary_opIS3_EE:2,--unwindset,_ZN4ikos19patricia_trees_impl4treeI1K1VSt8equal_toIS3_EE8iterator18look_for_next_leafESt10shared_ptrIS6_E:2
void h_remove(void){ GIN(g_a, NA_LO, NA_HI); GHOSTG(uint64_t, g_k); GHOSTG(uint64_t, g_q);
  PT t; build(&t, &g_a, NA_HI); K kk; k_new(&kk, g_k);
  PT_REMOVE(&t, &kk);
  OBSERVE_X(&t, "remove"); REACH; }
/* transform with inc_op: every value is incremented, bindings that reach PT_TOPV are dropped */
/* BOUNDED */
//@check id=transform fn=_ZNK4ikos13patricia_treeI1K1VSt8equal_toIS2_EE6lookupERKS1_ props=C19 tag=lookup unwind=5 backends=minisat,kissat first_timeout=600 timeout=900 timeout_thorough=2400 defs=SCN=SC_TRANSFORM vary=NA:0-2 bounded="<=2 bindings, keys < 8" cbmc=--unwindset,_ZNK4ikos19patricia_trees_impl4nodeI1K1VSt8equal_toIS3_EE6lookupERKS2_:1,--unwindset,_ZNK4ikos19patricia_trees_impl4nodeI1K1VSt8equal_toIS3_EE4findERKS2_:1,--unwindset,_ZN4ikos19patricia_trees_impl4treeI1K1VSt8equal_toIS3_EE6insertESt10shared_ptrIS6_ERKS2_RKS3_RNS_9binary_opIS2_S3_EEb:2,--unwindset,_ZN4ikos19patricia_trees_impl4treeI1K1VSt8equal_toIS3_EE5mergeESt10shared_ptrIS6_ES8_RNS_9binary_opIS2_S3_EEb:2,--unwindset,_ZN4ikos19patricia_trees_impl4treeI1K1VSt8equal_toIS3_EE7compareESt10shared_ptrIS6_ES8_RNS_13partial_orderIS3_EEb:2,--unwindset,_ZN4ikos19patricia_trees_impl4treeI1K1VSt8equal_toIS3_EE6removeESt10shared_ptrIS6_ERKS2_:2,--unwindset,_ZN4ikos19patricia_trees_impl4treeI1K1VSt8equal_toIS3_EE9transformESt10shared_ptrIS6_ERNS_8unary_opIS3_EE:2,--unwindset,_ZN4ikos19patricia_trees_impl4treeI1K1VSt8equal_toIS3_EE8iterator18look_for_next_leafESt10shared_ptrIS6_E:2
void h_transform(void){ GIN(g_a, NA_LO, NA_HI); GHOSTG(uint64_t, g_q);
  PT t; build(&t, &g_a, NA_HI); INCOP op; inc_op_new(&op);
  PT_TRANSFORM(&t, (UOP *)&op);
  OBSERVE_X(&t, "transform"); REACH; }
/* iteration begin()..end(): every binding exactly once, with its value, nothing else, size() steps */
/* BOUNDED */
//@check id=iterate fn=_ZNK4ikos13patricia_treeI1K1VSt8equal_toIS2_EE6lookupERKS1_ props=C19 tag=lookup unwind=5 backends=minisat,kissat first_timeout=600 timeout=900 timeout_thorough=2400 defs=SCN=SC_BUILD vary=NA:0-1 bounded="<=1 binding, keys < 8 (2 symbolic bindings: cbmc runs out of memory; see deep_iterate)" cbmc=--unwindset,_ZNK4ikos19patricia_trees_impl4nodeI1K1VSt8equal_toIS3_EE6lookupERKS2_:1,--unwindset,_ZNK4ikos19patricia_trees_impl4nodeI1K1VSt8equal_toIS3_EE4findERKS2_:1,--unwindset,_ZN4ikos19patricia_trees_impl4treeI1K1VSt8equal_toIS3_EE6insertESt10shared_ptrIS6_ERKS2_RKS3_RNS_9binary_opIS2_S3_EEb:2,--unwindset,_ZN4ikos19patricia_trees_impl4treeI1K1VSt8equal_toIS3_EE5mergeESt10shared_ptrIS6_ES8_RNS_9binary_opIS2_S3_EEb:2,--unwindset,_ZN4ikos19patricia_trees_impl4treeI1K1VSt8equal_toIS3_EE7compareESt10shared_ptrIS6_ES8_RNS_13partial_orderIS3_EEb:2,--unwindset,_ZN4ikos19patricia_trees_impl4treeI1K1VSt8equal_toIS3_EE6removeESt10shared_ptrIS6_ERKS2_:2,--unwindset,_ZN4ikos19patricia_trees_impl4treeI1K1VSt8equal_toIS3_EE9transformESt10shared_ptrIS6_ERNS_8unary_opIS3_EE:2,--unwindset,_ZN4ikos19patricia_trees_impl4treeI1K1VSt8equal_toIS3_EE8iterator18look_for_next_leafESt10shared_ptrIS6_E:2
void h_iterate(void){ GIN(g_a, NA_LO, NA_HI); GHOSTG(uint64_t, g_q); GHOSTG(uint64_t, g_k);
  __CPROVER_assume(g_k < PT_KEYS);
  PT t; build(&t, &g_a, NA_HI); PTIter it;
  pt_iterate(&it, &t, 3);
  __CPROVER_assert(it.f0 == m_size(&g_a), "iteration takes size() steps");
  __CPROVER_assert(it.f1.a[g_k] == (m_has(&g_a, g_k) ? 1 : 0), "iteration lists every binding exactly once");
  __CPROVER_assert(!m_has(&g_a, g_k) || it.f2.a[g_k] == m_val(&g_a, g_k), "iteration lists the bound value");
  __CPROVER_assert(it.f3 == 0, "iteration lists no other key");
  OBSERVE_X(&t, "iteration leaves the tree as it was"); REACH; }

/* ===================== two trees ===================== */
/* merge_with under the four operation objects (OPK): bottom signal, pointwise result at an arbitrary key, size;
 * on bottom *this is unchanged (x_has / x_val say so); the argument tree is never changed */
#define MERGE_HARNESS(INA, INB, HA, HB, OPT_T, OPNEW) { INA; INB; GHOSTG(uint64_t, g_q); \
  PT ta, tb; build(&ta, &g_a, HA); build(&tb, &g_b, HB); OPT_T op; OPNEW(&op); \
  unsigned char bot = PT_MERGE(&ta, &tb, (BOP *)&op); \
  __CPROVER_assert(bot == (mrg_bot(OPK, &g_a, &g_b) ? 1 : 0), "merge_with signals bottom exactly if some apply did"); \
  FIND_IS(&tb, g_q, m_has(&g_b, g_q), m_val(&g_b, g_q), "merge_with: argument unchanged"); \
  OBSERVE_X(&ta, "merge_with"); REACH; }
/* BOUNDED */
//@check id=merge_max fn=_ZNK4ikos13patricia_treeI1K1VSt8equal_toIS2_EE6lookupERKS1_ props=C19 tag=lookup unwind=5 backends=minisat,kissat first_timeout=600 timeout=900 timeout_thorough=2400 defs=SCN=SC_MERGE,OPK=OP_MAX vary=NN:4,5,7 vary_thorough=NN:0-7 bounded="<=2 bindings per tree, keys < 8" cbmc=--unwindset,_ZNK4ikos19patricia_trees_impl4nodeI1K1VSt8equal_toIS3_EE6lookupERKS2_:1,--unwindset,_ZNK4ikos19patricia_trees_impl4nodeI1K1VSt8equal_toIS3_EE4findERKS2_:1,--unwindset,_ZN4ikos19patricia_trees_impl4treeI1K1VSt8equal_toIS3_EE6insertESt10shared_ptrIS6_ERKS2_RKS3_RNS_9binary_opIS2_S3_EEb:2,--unwindset,_ZN4ikos19patricia_trees_impl4treeI1K1VSt8equal_toIS3_EE5mergeESt10shared_ptrIS6_ES8_RNS_9binary_opIS2_S3_EEb:2,--unwindset,_ZN4ikos19patricia_trees_impl4treeI1K1VSt8equal_toIS3_EE7compareESt10shared_ptrIS6_ES8_RNS_13partial_orderIS3_EEb:2,--unwindset,_ZN4ikos19patricia_trees_impl4treeI1K1VSt8equal_toIS3_EE6removeESt10shared_ptrIS6_ERKS2_:2,--unwindset,_ZN4ikos19patricia_trees_impl4treeI1K1VSt8equal_toIS3_EE9transformESt10shared_ptrIS6_ERNS_8unary_opIS3_EE:2,--unwindset,_ZN4ikos19patricia_trees_impl4treeI1K1VSt8equal_toIS3_EE8iterator18look_for_next_leafESt10shared_ptrIS6_E:2
void h_merge_max(void) MERGE_HARNESS(GIN(g_a, NA_LO, NA_HI), GIN(g_b, NB_LO, NB_HI), NA_HI, NB_HI, MAXOP, max_op_new)
/* BOUNDED */
//@check id=merge_min fn=_ZNK4ikos13patricia_treeI1K1VSt8equal_toIS2_EE6lookupERKS1_ props=C19 tag=lookup unwind=5 backends=minisat,kissat first_timeout=600 timeout=900 timeout_thorough=2400 defs=SCN=SC_MERGE,OPK=OP_MIN vary=NN:4 vary_thorough=NN:0-7 bounded="<=2 bindings per tree, keys < 8" cbmc=--unwindset,_ZNK4ikos19patricia_trees_impl4nodeI1K1VSt8equal_toIS3_EE6lookupERKS2_:1,--unwindset,_ZNK4ikos19patricia_trees_impl4nodeI1K1VSt8equal_toIS3_EE4findERKS2_:1,--unwindset,_ZN4ikos19patricia_trees_impl4treeI1K1VSt8equal_toIS3_EE6insertESt10shared_ptrIS6_ERKS2_RKS3_RNS_9binary_opIS2_S3_EEb:2,--unwindset,_ZN4ikos19patricia_trees_impl4treeI1K1VSt8equal_toIS3_EE5mergeESt10shared_ptrIS6_ES8_RNS_9binary_opIS2_S3_EEb:2,--unwindset,_ZN4ikos19patricia_trees_impl4treeI1K1VSt8equal_toIS3_EE7compareESt10shared_ptrIS6_ES8_RNS_13partial_orderIS3_EEb:2,--unwindset,_ZN4ikos19patricia_trees_impl4treeI1K1VSt8equal_toIS3_EE6removeESt10shared_ptrIS6_ERKS2_:2,--unwindset,_ZN4ikos19patricia_trees_impl4treeI1K1VSt8equal_toIS3_EE9transformESt10shared_ptrIS6_ERNS_8unary_opIS3_EE:2,--unwindset,_ZN4ikos19patricia_trees_impl4treeI1K1VSt8equal_toIS3_EE8iterator18look_for_next_leafESt10shared_ptrIS6_E:2
void h_merge_min(void) MERGE_HARNESS(GIN(g_a, NA_LO, NA_HI), GIN(g_b, NB_LO, NB_HI), NA_HI, NB_HI, MINOP, min_op_new)
/* BOUNDED */
//@check id=merge_widen fn=_ZNK4ikos13patricia_treeI1K1VSt8equal_toIS2_EE6lookupERKS1_ props=C19 tag=lookup unwind=5 backends=minisat,kissat first_timeout=600 timeout=900 timeout_thorough=2400 defs=SCN=SC_MERGE,OPK=OP_WIDEN vary=NN:4 vary_thorough=NN:0-7 bounded="<=2 bindings per tree, keys < 8" cbmc=--unwindset,_ZNK4ikos19patricia_trees_impl4nodeI1K1VSt8equal_toIS3_EE6lookupERKS2_:1,--unwindset,_ZNK4ikos19patricia_trees_impl4nodeI1K1VSt8equal_toIS3_EE4findERKS2_:1,--unwindset,_ZN4ikos19patricia_trees_impl4treeI1K1VSt8equal_toIS3_EE6insertESt10shared_ptrIS6_ERKS2_RKS3_RNS_9binary_opIS2_S3_EEb:2,--unwindset,_ZN4ikos19patricia_trees_impl4treeI1K1VSt8equal_toIS3_EE5mergeESt10shared_ptrIS6_ES8_RNS_9binary_opIS2_S3_EEb:2,--unwindset,_ZN4ikos19patricia_trees_impl4treeI1K1VSt8equal_toIS3_EE7compareESt10shared_ptrIS6_ES8_RNS_13partial_orderIS3_EEb:2,--unwindset,_ZN4ikos19patricia_trees_impl4treeI1K1VSt8equal_toIS3_EE6removeESt10shared_ptrIS6_ERKS2_:2,--unwindset,_ZN4ikos19patricia_trees_impl4treeI1K1VSt8equal_toIS3_EE9transformESt10shared_ptrIS6_ERNS_8unary_opIS3_EE:2,--unwindset,_ZN4ikos19patricia_trees_impl4treeI1K1VSt8equal_toIS3_EE8iterator18look_for_next_leafESt10shared_ptrIS6_E:2
void h_merge_widen(void) MERGE_HARNESS(GIN(g_a, NA_LO, NA_HI), GIN(g_b, NB_LO, NB_HI), NA_HI, NB_HI, WIDENOP, widen_op_new)
/* BOUNDED */
//@check id=merge_first fn=_ZNK4ikos13patricia_treeI1K1VSt8equal_toIS2_EE6lookupERKS1_ props=C19 tag=lookup unwind=5 backends=minisat,kissat first_timeout=600 timeout=900 timeout_thorough=2400 defs=SCN=SC_MERGE,OPK=OP_FIRST vary=NN:4 vary_thorough=NN:0-7 bounded="<=2 bindings per tree, keys < 8" cbmc=--unwindset,_ZNK4ikos19patricia_trees_impl4nodeI1K1VSt8equal_toIS3_EE6lookupERKS2_:1,--unwindset,_ZNK4ikos19patricia_trees_impl4nodeI1K1VSt8equal_toIS3_EE4findERKS2_:1,--unwindset,_ZN4ikos19patricia_trees_impl4treeI1K1VSt8equal_toIS3_EE6insertESt10shared_ptrIS6_ERKS2_RKS3_RNS_9binary_opIS2_S3_EEb:2,--unwindset,_ZN4ikos19patricia_trees_impl4treeI1K1VSt8equal_toIS3_EE5mergeESt10shared_ptrIS6_ES8_RNS_9binary_opIS2_S3_EEb:2,--unwindset,_ZN4ikos19patricia_trees_impl4treeI1K1VSt8equal_toIS3_EE7compareESt10shared_ptrIS6_ES8_RNS_13partial_orderIS3_EEb:2,--unwindset,_ZN4ikos19patricia_trees_impl4treeI1K1VSt8equal_toIS3_EE6removeESt10shared_ptrIS6_ERKS2_:2,--unwindset,_ZN4ikos19patricia_trees_impl4treeI1K1VSt8equal_toIS3_EE9transformESt10shared_ptrIS6_ERNS_8unary_opIS3_EE:2,--unwindset,_ZN4ikos19patricia_trees_impl4treeI1K1VSt8equal_toIS3_EE8iterator18look_for_next_leafESt10shared_ptrIS6_E:2
void h_merge_first(void) MERGE_HARNESS(GIN(g_a, NA_LO, NA_HI), GIN(g_b, NB_LO, NB_HI), NA_HI, NB_HI, FIRSTOP, first_op_new)

/* leq in both default_is_top modes: exactly the pointwise order.  (This is the check that the defect repaired by
 * /repo 26d7c40 violates: {x -> v} <= {y -> w} with x != y answered yes under default_is_top.) */
#define LEQ_HARNESS(INA, INB, HA, HB) { INA; INB; GHOSTG(uint64_t, g_q); \
  PT ta, tb; build(&ta, &g_a, HA); build(&tb, &g_b, HB); LEPO po; le_po_new(&po, DTOP); \
  unsigned char r = PT_LEQ(&ta, &tb, (PORD *)&po); \
  __CPROVER_assert(r == (m_leq(&g_a, &g_b, DTOP) ? 1 : 0), "leq answers yes exactly when the pointwise order holds"); \
  FIND_IS(&tb, g_q, m_has(&g_b, g_q), m_val(&g_b, g_q), "leq: right operand unchanged"); \
  OBSERVE_X(&ta, "leq: left operand unchanged"); REACH; }
/* BOUNDED */
//@check id=leq_top fn=_ZNK4ikos13patricia_treeI1K1VSt8equal_toIS2_EE6lookupERKS1_ props=C19,C04 tag=lookup unwind=5 backends=minisat,kissat first_timeout=600 timeout=900 timeout_thorough=2400 defs=SCN=SC_BUILD,DTOP=1 vary=NN:4,5,7,1,3 vary_thorough=NN:0-7 bounded="<=2 bindings per tree, keys < 8" cbmc=--unwindset,_ZNK4ikos19patricia_trees_impl4nodeI1K1VSt8equal_toIS3_EE6lookupERKS2_:1,--unwindset,_ZNK4ikos19patricia_trees_impl4nodeI1K1VSt8equal_toIS3_EE4findERKS2_:1,--unwindset,_ZN4ikos19patricia_trees_impl4treeI1K1VSt8equal_toIS3_EE6insertESt10shared_ptrIS6_ERKS2_RKS3_RNS_9binary_opIS2_S3_EEb:2,--unwindset,_ZN4ikos19patricia_trees_impl4treeI1K1VSt8equal_toIS3_EE5mergeESt10shared_ptrIS6_ES8_RNS_9binary_opIS2_S3_EEb:2,--unwindset,_ZN4ikos19patricia_trees_impl4treeI1K1VSt8equal_toIS3_EE7compareESt10shared_ptrIS6_ES8_RNS_13partial_orderIS3_EEb:2,--unwindset,_ZN4ikos19patricia_trees_impl4treeI1K1VSt8equal_toIS3_EE6removeESt10shared_ptrIS6_ERKS2_:2,--unwindset,_ZN4ikos19patricia_trees_impl4treeI1K1VSt8equal_toIS3_EE9transformESt10shared_ptrIS6_ERNS_8unary_opIS3_EE:2,--unwindset,_ZN4ikos19patricia_trees_impl4treeI1K1VSt8equal_toIS3_EE8iterator18look_for_next_leafESt10shared_ptrIS6_E:2
void h_leq_top(void) LEQ_HARNESS(GIN(g_a, NA_LO, NA_HI), GIN(g_b, NB_LO, NB_HI), NA_HI, NB_HI)
/* BOUNDED */
//@check id=leq_bot fn=_ZNK4ikos13patricia_treeI1K1VSt8equal_toIS2_EE6lookupERKS1_ props=C19,C04 tag=lookup unwind=5 backends=minisat,kissat first_timeout=600 timeout=900 timeout_thorough=2400 defs=SCN=SC_BUILD,DTOP=0 vary=NN:4,5,7,1,3 vary_thorough=NN:0-7 bounded="<=2 bindings per tree, keys < 8" cbmc=--unwindset,_ZNK4ikos19patricia_trees_impl4nodeI1K1VSt8equal_toIS3_EE6lookupERKS2_:1,--unwindset,_ZNK4ikos19patricia_trees_impl4nodeI1K1VSt8equal_toIS3_EE4findERKS2_:1,--unwindset,_ZN4ikos19patricia_trees_impl4treeI1K1VSt8equal_toIS3_EE6insertESt10shared_ptrIS6_ERKS2_RKS3_RNS_9binary_opIS2_S3_EEb:2,--unwindset,_ZN4ikos19patricia_trees_impl4treeI1K1VSt8equal_toIS3_EE5mergeESt10shared_ptrIS6_ES8_RNS_9binary_opIS2_S3_EEb:2,--unwindset,_ZN4ikos19patricia_trees_impl4treeI1K1VSt8equal_toIS3_EE7compareESt10shared_ptrIS6_ES8_RNS_13partial_orderIS3_EEb:2,--unwindset,_ZN4ikos19patricia_trees_impl4treeI1K1VSt8equal_toIS3_EE6removeESt10shared_ptrIS6_ERKS2_:2,--unwindset,_ZN4ikos19patricia_trees_impl4treeI1K1VSt8equal_toIS3_EE9transformESt10shared_ptrIS6_ERNS_8unary_opIS3_EE:2,--unwindset,_ZN4ikos19patricia_trees_impl4treeI1K1VSt8equal_toIS3_EE8iterator18look_for_next_leafESt10shared_ptrIS6_E:2
void h_leq_bot(void) LEQ_HARNESS(GIN(g_a, NA_LO, NA_HI), GIN(g_b, NB_LO, NB_HI), NA_HI, NB_HI)
/* a tree against itself / against a copy that shares its root: yes in both modes (C04: yes on equal values) */
/* BOUNDED */
//@check id=leq_self fn=_ZNK4ikos13patricia_treeI1K1VSt8equal_toIS2_EE6lookupERKS1_ props=C19,C04 tag=lookup unwind=5 backends=minisat,kissat first_timeout=600 timeout=900 timeout_thorough=2400 defs=SCN=SC_BUILD vary=NA:1 vary_thorough=NA:0-1 bounded="<=1 binding, keys < 8 (see deep_leq_self / deep_leq_copy for nested trees)" cbmc=--unwindset,_ZNK4ikos19patricia_trees_impl4nodeI1K1VSt8equal_toIS3_EE6lookupERKS2_:1,--unwindset,_ZNK4ikos19patricia_trees_impl4nodeI1K1VSt8equal_toIS3_EE4findERKS2_:1,--unwindset,_ZN4ikos19patricia_trees_impl4treeI1K1VSt8equal_toIS3_EE6insertESt10shared_ptrIS6_ERKS2_RKS3_RNS_9binary_opIS2_S3_EEb:2,--unwindset,_ZN4ikos19patricia_trees_impl4treeI1K1VSt8equal_toIS3_EE5mergeESt10shared_ptrIS6_ES8_RNS_9binary_opIS2_S3_EEb:2,--unwindset,_ZN4ikos19patricia_trees_impl4treeI1K1VSt8equal_toIS3_EE7compareESt10shared_ptrIS6_ES8_RNS_13partial_orderIS3_EEb:2,--unwindset,_ZN4ikos19patricia_trees_impl4treeI1K1VSt8equal_toIS3_EE6removeESt10shared_ptrIS6_ERKS2_:2,--unwindset,_ZN4ikos19patricia_trees_impl4treeI1K1VSt8equal_toIS3_EE9transformESt10shared_ptrIS6_ERNS_8unary_opIS3_EE:2,--unwindset,_ZN4ikos19patricia_trees_impl4treeI1K1VSt8equal_toIS3_EE8iterator18look_for_next_leafESt10shared_ptrIS6_E:2
void h_leq_self(void){ GIN(g_a, NA_LO, NA_HI); GHOSTG(uint64_t, g_q); GHOSTG(uint64_t, g_k);
  PT ta; build(&ta, &g_a, NA_HI); LEPO po; le_po_new(&po, g_k & 1);
  __CPROVER_assert(PT_LEQ(&ta, &ta, (PORD *)&po) == 1, "a tree is included in itself");
  OBSERVE_X(&ta, "leq: operand unchanged"); REACH; }
/* BOUNDED */
//@check id=leq_copy fn=_ZNK4ikos13patricia_treeI1K1VSt8equal_toIS2_EE6lookupERKS1_ props=C19,C04 tag=lookup unwind=5 backends=minisat,kissat first_timeout=600 timeout=900 timeout_thorough=2400 defs=SCN=SC_BUILD vary=NA:1 vary_thorough=NA:0-1 bounded="<=1 binding, keys < 8 (see deep_leq_self / deep_leq_copy for nested trees)" cbmc=--unwindset,_ZNK4ikos19patricia_trees_impl4nodeI1K1VSt8equal_toIS3_EE6lookupERKS2_:1,--unwindset,_ZNK4ikos19patricia_trees_impl4nodeI1K1VSt8equal_toIS3_EE4findERKS2_:1,--unwindset,_ZN4ikos19patricia_trees_impl4treeI1K1VSt8equal_toIS3_EE6insertESt10shared_ptrIS6_ERKS2_RKS3_RNS_9binary_opIS2_S3_EEb:2,--unwindset,_ZN4ikos19patricia_trees_impl4treeI1K1VSt8equal_toIS3_EE5mergeESt10shared_ptrIS6_ES8_RNS_9binary_opIS2_S3_EEb:2,--unwindset,_ZN4ikos19patricia_trees_impl4treeI1K1VSt8equal_toIS3_EE7compareESt10shared_ptrIS6_ES8_RNS_13partial_orderIS3_EEb:2,--unwindset,_ZN4ikos19patricia_trees_impl4treeI1K1VSt8equal_toIS3_EE6removeESt10shared_ptrIS6_ERKS2_:2,--unwindset,_ZN4ikos19patricia_trees_impl4treeI1K1VSt8equal_toIS3_EE9transformESt10shared_ptrIS6_ERNS_8unary_opIS3_EE:2,--unwindset,_ZN4ikos19patricia_trees_impl4treeI1K1VSt8equal_toIS3_EE8iterator18look_for_next_leafESt10shared_ptrIS6_E:2
void h_leq_copy(void){ GIN(g_a, NA_LO, NA_HI); GHOSTG(uint64_t, g_q); GHOSTG(uint64_t, g_k);
  PT ta, tc; build(&ta, &g_a, NA_HI); pt_copy(&tc, &ta); LEPO po; le_po_new(&po, g_k & 1);
  __CPROVER_assert(PT_LEQ(&ta, &tc, (PORD *)&po) == 1, "a tree is included in a copy of itself");
  OBSERVE_X(&tc, "the copy denotes the same map"); REACH; }

/* ===================== deeper trees: CONCRETE key sets, symbolic values =====================
 * With symbolic keys cbmc does not get beyond 2 bindings per tree (see unit.json), so nested nodes -- the branches of
 * tree::merge / tree::compare for nodes with DIFFERENT branching bits, insert / remove / find below a node -- are
 * reached with concrete key sets instead; the values stay symbolic, so which bindings are dropped (top), which
 * subtrees are shared with an operand (`new_lb == s->left_branch()`), bottom, and the order are still decided
 * symbolically.  (deep_leq_top runs pairs 0 and 2 in the quick tier too.)
 * Key sets as bit masks (bit c = key c):
 *   A = {0,1,4,5}: root bit 4, children nodes with bit 1      A' = {2,3,6,7}: the same shape on the other side
 *   B = {0,2,4,6}: root bit 4, children nodes with bit 2      E = {0,1,4}, F = {2,3,4}: root bit 4, disjoint left subtrees
 *   G = {0,4}: root bit 4, leaf children                      C = {0,1}, D = {2,3}: disjoint two-leaf nodes
 *   L1 = {1}, L3 = {3}: single leaves (3 does not match the prefix of A's left subtree)
 * pairs (left operand, right operand):
 *   0 (A,B) 1 (A',B): left has the SMALLER branching bit, zero / non-zero side      2 (B,A) 3 (B,A'): the LARGER one
 *   4 (E,F): equal roots, disjoint prefixes below (join / nil)   5 (A,A): equal shapes   6 (A,G) 7 (G,A): leaf against node below equal roots
 *   8 (L1,A) 9 (A,L1) 10 (L3,A) 11 (A,L3): a leaf against a nested tree   12 (C,D) 13 (D,C): disjoint at the root */
#ifndef CS
#define CS 0
#endif
#define KS_A 0x33
#define KS_A2 0xCC
#define KS_B 0x55
#define KS_C 0x03
#define KS_D 0x0C
#define KS_E 0x13
#define KS_F 0x1C
#define KS_G 0x11
#define KS_L1 0x02
#define KS_L3 0x08
#define CS_A (CS == 0 ? KS_A : CS == 1 ? KS_A2 : CS == 2 ? KS_B : CS == 3 ? KS_B : CS == 4 ? KS_E : CS == 5 ? KS_A : CS == 6 ? KS_A : CS == 7 ? KS_G : \
              CS == 8 ? KS_L1 : CS == 9 ? KS_A : CS == 10 ? KS_L3 : CS == 11 ? KS_A : CS == 12 ? KS_C : KS_D)
#define CS_B (CS == 0 ? KS_B : CS == 1 ? KS_B : CS == 2 ? KS_A : CS == 3 ? KS_A2 : CS == 4 ? KS_F : CS == 5 ? KS_A : CS == 6 ? KS_G : CS == 7 ? KS_A : \
              CS == 8 ? KS_A : CS == 9 ? KS_L1 : CS == 10 ? KS_A : CS == 11 ? KS_L3 : CS == 12 ? KS_D : KS_C)
/* BOUNDED */
//@check id=deep_merge_max fn=_ZNK4ikos13patricia_treeI1K1VSt8equal_toIS2_EE6lookupERKS1_ props=C19 tag=lookup unwind=6 defs=SCN=SC_MERGE,OPK=OP_MAX vary=CS:1 vary_thorough=CS:0-13 cost=5 bounded="one pair of concrete key sets per run (<=4 keys < 8 each, 14 pairs), values symbolic" backends=minisat,kissat first_timeout=900 timeout=1200 cbmc=--unwindset,_ZNK4ikos19patricia_trees_impl4nodeI1K1VSt8equal_toIS3_EE6lookupERKS2_:3,--unwindset,_ZNK4ikos19patricia_trees_impl4nodeI1K1VSt8equal_toIS3_EE4findERKS2_:3,--unwindset,_ZN4ikos19patricia_trees_impl4treeI1K1VSt8equal_toIS3_EE6insertESt10shared_ptrIS6_ERKS2_RKS3_RNS_9binary_opIS2_S3_EEb:4,--unwindset,_ZN4ikos19patricia_trees_impl4treeI1K1VSt8equal_toIS3_EE5mergeESt10shared_ptrIS6_ES8_RNS_9binary_opIS2_S3_EEb:4,--unwindset,_ZN4ikos19patricia_trees_impl4treeI1K1VSt8equal_toIS3_EE7compareESt10shared_ptrIS6_ES8_RNS_13partial_orderIS3_EEb:4,--unwindset,_ZN4ikos19patricia_trees_impl4treeI1K1VSt8equal_toIS3_EE6removeESt10shared_ptrIS6_ERKS2_:4,--unwindset,_ZN4ikos19patricia_trees_impl4treeI1K1VSt8equal_toIS3_EE9transformESt10shared_ptrIS6_ERNS_8unary_opIS3_EE:4,--unwindset,_ZN4ikos19patricia_trees_impl4treeI1K1VSt8equal_toIS3_EE8iterator18look_for_next_leafESt10shared_ptrIS6_E:4
void h_deep_merge_max(void) MERGE_HARNESS(GMASK(g_a, CS_A), GMASK(g_b, CS_B), PT_NMAX, PT_NMAX, MAXOP, max_op_new)
/* BOUNDED */
//@check id=deep_merge_min fn=_ZNK4ikos13patricia_treeI1K1VSt8equal_toIS2_EE6lookupERKS1_ props=C19 tag=lookup tier=thorough unwind=6 defs=SCN=SC_MERGE,OPK=OP_MIN vary=CS:0-13 bounded="one pair of concrete key sets per run (<=4 keys < 8 each, 14 pairs), values symbolic" backends=minisat,kissat first_timeout=900 timeout=1200 cbmc=--unwindset,_ZNK4ikos19patricia_trees_impl4nodeI1K1VSt8equal_toIS3_EE6lookupERKS2_:3,--unwindset,_ZNK4ikos19patricia_trees_impl4nodeI1K1VSt8equal_toIS3_EE4findERKS2_:3,--unwindset,_ZN4ikos19patricia_trees_impl4treeI1K1VSt8equal_toIS3_EE6insertESt10shared_ptrIS6_ERKS2_RKS3_RNS_9binary_opIS2_S3_EEb:4,--unwindset,_ZN4ikos19patricia_trees_impl4treeI1K1VSt8equal_toIS3_EE5mergeESt10shared_ptrIS6_ES8_RNS_9binary_opIS2_S3_EEb:4,--unwindset,_ZN4ikos19patricia_trees_impl4treeI1K1VSt8equal_toIS3_EE7compareESt10shared_ptrIS6_ES8_RNS_13partial_orderIS3_EEb:4,--unwindset,_ZN4ikos19patricia_trees_impl4treeI1K1VSt8equal_toIS3_EE6removeESt10shared_ptrIS6_ERKS2_:4,--unwindset,_ZN4ikos19patricia_trees_impl4treeI1K1VSt8equal_toIS3_EE9transformESt10shared_ptrIS6_ERNS_8unary_opIS3_EE:4,--unwindset,_ZN4ikos19patricia_trees_impl4treeI1K1VSt8equal_toIS3_EE8iterator18look_for_next_leafESt10shared_ptrIS6_E:4
void h_deep_merge_min(void) MERGE_HARNESS(GMASK(g_a, CS_A), GMASK(g_b, CS_B), PT_NMAX, PT_NMAX, MINOP, min_op_new)
/* BOUNDED */
//@check id=deep_merge_widen fn=_ZNK4ikos13patricia_treeI1K1VSt8equal_toIS2_EE6lookupERKS1_ props=C19 tag=lookup tier=thorough unwind=6 defs=SCN=SC_MERGE,OPK=OP_WIDEN vary=CS:0-13 bounded="one pair of concrete key sets per run (<=4 keys < 8 each, 14 pairs), values symbolic" backends=minisat,kissat first_timeout=900 timeout=1200 cbmc=--unwindset,_ZNK4ikos19patricia_trees_impl4nodeI1K1VSt8equal_toIS3_EE6lookupERKS2_:3,--unwindset,_ZNK4ikos19patricia_trees_impl4nodeI1K1VSt8equal_toIS3_EE4findERKS2_:3,--unwindset,_ZN4ikos19patricia_trees_impl4treeI1K1VSt8equal_toIS3_EE6insertESt10shared_ptrIS6_ERKS2_RKS3_RNS_9binary_opIS2_S3_EEb:4,--unwindset,_ZN4ikos19patricia_trees_impl4treeI1K1VSt8equal_toIS3_EE5mergeESt10shared_ptrIS6_ES8_RNS_9binary_opIS2_S3_EEb:4,--unwindset,_ZN4ikos19patricia_trees_impl4treeI1K1VSt8equal_toIS3_EE7compareESt10shared_ptrIS6_ES8_RNS_13partial_orderIS3_EEb:4,--unwindset,_ZN4ikos19patricia_trees_impl4treeI1K1VSt8equal_toIS3_EE6removeESt10shared_ptrIS6_ERKS2_:4,--unwindset,_ZN4ikos19patricia_trees_impl4treeI1K1VSt8equal_toIS3_EE9transformESt10shared_ptrIS6_ERNS_8unary_opIS3_EE:4,--unwindset,_ZN4ikos19patricia_trees_impl4treeI1K1VSt8equal_toIS3_EE8iterator18look_for_next_leafESt10shared_ptrIS6_E:4
void h_deep_merge_widen(void) MERGE_HARNESS(GMASK(g_a, CS_A), GMASK(g_b, CS_B), PT_NMAX, PT_NMAX, WIDENOP, widen_op_new)
/* BOUNDED */
//@check id=deep_merge_first fn=_ZNK4ikos13patricia_treeI1K1VSt8equal_toIS2_EE6lookupERKS1_ props=C19 tag=lookup unwind=6 defs=SCN=SC_MERGE,OPK=OP_FIRST vary=CS:9 vary_thorough=CS:0-13 cost=3 bounded="one pair of concrete key sets per run (<=4 keys < 8 each, 14 pairs), values symbolic" backends=minisat,kissat first_timeout=900 timeout=1200 cbmc=--unwindset,_ZNK4ikos19patricia_trees_impl4nodeI1K1VSt8equal_toIS3_EE6lookupERKS2_:3,--unwindset,_ZNK4ikos19patricia_trees_impl4nodeI1K1VSt8equal_toIS3_EE4findERKS2_:3,--unwindset,_ZN4ikos19patricia_trees_impl4treeI1K1VSt8equal_toIS3_EE6insertESt10shared_ptrIS6_ERKS2_RKS3_RNS_9binary_opIS2_S3_EEb:4,--unwindset,_ZN4ikos19patricia_trees_impl4treeI1K1VSt8equal_toIS3_EE5mergeESt10shared_ptrIS6_ES8_RNS_9binary_opIS2_S3_EEb:4,--unwindset,_ZN4ikos19patricia_trees_impl4treeI1K1VSt8equal_toIS3_EE7compareESt10shared_ptrIS6_ES8_RNS_13partial_orderIS3_EEb:4,--unwindset,_ZN4ikos19patricia_trees_impl4treeI1K1VSt8equal_toIS3_EE6removeESt10shared_ptrIS6_ERKS2_:4,--unwindset,_ZN4ikos19patricia_trees_impl4treeI1K1VSt8equal_toIS3_EE9transformESt10shared_ptrIS6_ERNS_8unary_opIS3_EE:4,--unwindset,_ZN4ikos19patricia_trees_impl4treeI1K1VSt8equal_toIS3_EE8iterator18look_for_next_leafESt10shared_ptrIS6_E:4
void h_deep_merge_first(void) MERGE_HARNESS(GMASK(g_a, CS_A), GMASK(g_b, CS_B), PT_NMAX, PT_NMAX, FIRSTOP, first_op_new)
/* BOUNDED */
//@check id=deep_leq_top fn=_ZNK4ikos13patricia_treeI1K1VSt8equal_toIS2_EE6lookupERKS1_ props=C19,C04 tag=lookup unwind=6 defs=SCN=SC_BUILD,DTOP=1 vary=CS:0,2 vary_thorough=CS:0-13 bounded="one pair of concrete key sets per run (<=4 keys < 8 each, 14 pairs), values symbolic" backends=minisat,kissat first_timeout=900 timeout=1200 cbmc=--unwindset,_ZNK4ikos19patricia_trees_impl4nodeI1K1VSt8equal_toIS3_EE6lookupERKS2_:3,--unwindset,_ZNK4ikos19patricia_trees_impl4nodeI1K1VSt8equal_toIS3_EE4findERKS2_:3,--unwindset,_ZN4ikos19patricia_trees_impl4treeI1K1VSt8equal_toIS3_EE6insertESt10shared_ptrIS6_ERKS2_RKS3_RNS_9binary_opIS2_S3_EEb:4,--unwindset,_ZN4ikos19patricia_trees_impl4treeI1K1VSt8equal_toIS3_EE5mergeESt10shared_ptrIS6_ES8_RNS_9binary_opIS2_S3_EEb:4,--unwindset,_ZN4ikos19patricia_trees_impl4treeI1K1VSt8equal_toIS3_EE7compareESt10shared_ptrIS6_ES8_RNS_13partial_orderIS3_EEb:4,--unwindset,_ZN4ikos19patricia_trees_impl4treeI1K1VSt8equal_toIS3_EE6removeESt10shared_ptrIS6_ERKS2_:4,--unwindset,_ZN4ikos19patricia_trees_impl4treeI1K1VSt8equal_toIS3_EE9transformESt10shared_ptrIS6_ERNS_8unary_opIS3_EE:4,--unwindset,_ZN4ikos19patricia_trees_impl4treeI1K1VSt8equal_toIS3_EE8iterator18look_for_next_leafESt10shared_ptrIS6_E:4
void h_deep_leq_top(void) LEQ_HARNESS(GMASK(g_a, CS_A), GMASK(g_b, CS_B), PT_NMAX, PT_NMAX)
/* BOUNDED */
//@check id=deep_leq_bot fn=_ZNK4ikos13patricia_treeI1K1VSt8equal_toIS2_EE6lookupERKS1_ props=C19,C04 tag=lookup tier=thorough unwind=6 defs=SCN=SC_BUILD,DTOP=0 vary=CS:0-13 bounded="one pair of concrete key sets per run (<=4 keys < 8 each, 14 pairs), values symbolic" backends=minisat,kissat first_timeout=900 timeout=1200 cbmc=--unwindset,_ZNK4ikos19patricia_trees_impl4nodeI1K1VSt8equal_toIS3_EE6lookupERKS2_:3,--unwindset,_ZNK4ikos19patricia_trees_impl4nodeI1K1VSt8equal_toIS3_EE4findERKS2_:3,--unwindset,_ZN4ikos19patricia_trees_impl4treeI1K1VSt8equal_toIS3_EE6insertESt10shared_ptrIS6_ERKS2_RKS3_RNS_9binary_opIS2_S3_EEb:4,--unwindset,_ZN4ikos19patricia_trees_impl4treeI1K1VSt8equal_toIS3_EE5mergeESt10shared_ptrIS6_ES8_RNS_9binary_opIS2_S3_EEb:4,--unwindset,_ZN4ikos19patricia_trees_impl4treeI1K1VSt8equal_toIS3_EE7compareESt10shared_ptrIS6_ES8_RNS_13partial_orderIS3_EEb:4,--unwindset,_ZN4ikos19patricia_trees_impl4treeI1K1VSt8equal_toIS3_EE6removeESt10shared_ptrIS6_ERKS2_:4,--unwindset,_ZN4ikos19patricia_trees_impl4treeI1K1VSt8equal_toIS3_EE9transformESt10shared_ptrIS6_ERNS_8unary_opIS3_EE:4,--unwindset,_ZN4ikos19patricia_trees_impl4treeI1K1VSt8equal_toIS3_EE8iterator18look_for_next_leafESt10shared_ptrIS6_E:4
void h_deep_leq_bot(void) LEQ_HARNESS(GMASK(g_a, CS_A), GMASK(g_b, CS_B), PT_NMAX, PT_NMAX)
/* one tree of 4 bindings: A, B, {0,1,2,3} (root bit 2), {1,2,4,7} (three levels) */
#ifndef CT
#define CT 0
#endif
#define CT_A (CT == 0 ? KS_A : CT == 1 ? KS_B : CT == 2 ? 0x0F : 0x96)
/* BOUNDED */
//@check id=deep_build fn=_ZNK4ikos13patricia_treeI1K1VSt8equal_toIS2_EE6lookupERKS1_ props=C19 tag=lookup tier=thorough unwind=6 defs=SCN=SC_BUILD vary=CT:0-3 bounded="one concrete key set of 4 keys < 8 per run (4 sets), values symbolic" backends=minisat,kissat first_timeout=900 timeout=1200 cbmc=--unwindset,_ZNK4ikos19patricia_trees_impl4nodeI1K1VSt8equal_toIS3_EE6lookupERKS2_:3,--unwindset,_ZNK4ikos19patricia_trees_impl4nodeI1K1VSt8equal_toIS3_EE4findERKS2_:3,--unwindset,_ZN4ikos19patricia_trees_impl4treeI1K1VSt8equal_toIS3_EE6insertESt10shared_ptrIS6_ERKS2_RKS3_RNS_9binary_opIS2_S3_EEb:4,--unwindset,_ZN4ikos19patricia_trees_impl4treeI1K1VSt8equal_toIS3_EE5mergeESt10shared_ptrIS6_ES8_RNS_9binary_opIS2_S3_EEb:4,--unwindset,_ZN4ikos19patricia_trees_impl4treeI1K1VSt8equal_toIS3_EE7compareESt10shared_ptrIS6_ES8_RNS_13partial_orderIS3_EEb:4,--unwindset,_ZN4ikos19patricia_trees_impl4treeI1K1VSt8equal_toIS3_EE6removeESt10shared_ptrIS6_ERKS2_:4,--unwindset,_ZN4ikos19patricia_trees_impl4treeI1K1VSt8equal_toIS3_EE9transformESt10shared_ptrIS6_ERNS_8unary_opIS3_EE:4,--unwindset,_ZN4ikos19patricia_trees_impl4treeI1K1VSt8equal_toIS3_EE8iterator18look_for_next_leafESt10shared_ptrIS6_E:4
void h_deep_build(void){ GMASK(g_a, CT_A); GHOSTG(uint64_t, g_q); PT t; build(&t, &g_a, PT_NMAX); OBSERVE_X(&t, "insert"); REACH; }
/* BOUNDED */
//@check id=deep_remove fn=_ZNK4ikos13patricia_treeI1K1VSt8equal_toIS2_EE6lookupERKS1_ props=C19 tag=lookup tier=thorough unwind=6 defs=SCN=SC_REMOVE vary=CT:0-3 bounded="one concrete key set of 4 keys < 8 per run (4 sets), values symbolic" backends=minisat,kissat first_timeout=900 timeout=1200 cbmc=--unwindset,_ZNK4ikos19patricia_trees_impl4nodeI1K1VSt8equal_toIS3_EE6lookupERKS2_:3,--unwindset,_ZNK4ikos19patricia_trees_impl4nodeI1K1VSt8equal_toIS3_EE4findERKS2_:3,--unwindset,_ZN4ikos19patricia_trees_impl4treeI1K1VSt8equal_toIS3_EE6insertESt10shared_ptrIS6_ERKS2_RKS3_RNS_9binary_opIS2_S3_EEb:4,--unwindset,_ZN4ikos19patricia_trees_impl4treeI1K1VSt8equal_toIS3_EE5mergeESt10shared_ptrIS6_ES8_RNS_9binary_opIS2_S3_EEb:4,--unwindset,_ZN4ikos19patricia_trees_impl4treeI1K1VSt8equal_toIS3_EE7compareESt10shared_ptrIS6_ES8_RNS_13partial_orderIS3_EEb:4,--unwindset,_ZN4ikos19patricia_trees_impl4treeI1K1VSt8equal_toIS3_EE6removeESt10shared_ptrIS6_ERKS2_:4,--unwindset,_ZN4ikos19patricia_trees_impl4treeI1K1VSt8equal_toIS3_EE9transformESt10shared_ptrIS6_ERNS_8unary_opIS3_EE:4,--unwindset,_ZN4ikos19patricia_trees_impl4treeI1K1VSt8equal_toIS3_EE8iterator18look_for_next_leafESt10shared_ptrIS6_E:4
void h_deep_remove(void){ GMASK(g_a, CT_A); GHOSTG(uint64_t, g_k); GHOSTG(uint64_t, g_q);
  PT t; build(&t, &g_a, PT_NMAX); K kk; k_new(&kk, g_k);
  PT_REMOVE(&t, &kk);
  OBSERVE_X(&t, "remove"); REACH; }
/* BOUNDED */
//@check id=deep_transform fn=_ZNK4ikos13patricia_treeI1K1VSt8equal_toIS2_EE6lookupERKS1_ props=C19 tag=lookup tier=thorough unwind=6 defs=SCN=SC_TRANSFORM vary=CT:0-3 bounded="one concrete key set of 4 keys < 8 per run (4 sets), values symbolic" backends=minisat,kissat first_timeout=900 timeout=1200 cbmc=--unwindset,_ZNK4ikos19patricia_trees_impl4nodeI1K1VSt8equal_toIS3_EE6lookupERKS2_:3,--unwindset,_ZNK4ikos19patricia_trees_impl4nodeI1K1VSt8equal_toIS3_EE4findERKS2_:3,--unwindset,_ZN4ikos19patricia_trees_impl4treeI1K1VSt8equal_toIS3_EE6insertESt10shared_ptrIS6_ERKS2_RKS3_RNS_9binary_opIS2_S3_EEb:4,--unwindset,_ZN4ikos19patricia_trees_impl4treeI1K1VSt8equal_toIS3_EE5mergeESt10shared_ptrIS6_ES8_RNS_9binary_opIS2_S3_EEb:4,--unwindset,_ZN4ikos19patricia_trees_impl4treeI1K1VSt8equal_toIS3_EE7compareESt10shared_ptrIS6_ES8_RNS_13partial_orderIS3_EEb:4,--unwindset,_ZN4ikos19patricia_trees_impl4treeI1K1VSt8equal_toIS3_EE6removeESt10shared_ptrIS6_ERKS2_:4,--unwindset,_ZN4ikos19patricia_trees_impl4treeI1K1VSt8equal_toIS3_EE9transformESt10shared_ptrIS6_ERNS_8unary_opIS3_EE:4,--unwindset,_ZN4ikos19patricia_trees_impl4treeI1K1VSt8equal_toIS3_EE8iterator18look_for_next_leafESt10shared_ptrIS6_E:4
void h_deep_transform(void){ GMASK(g_a, CT_A); GHOSTG(uint64_t, g_q);
  PT t; build(&t, &g_a, PT_NMAX); INCOP op; inc_op_new(&op);
  PT_TRANSFORM(&t, (UOP *)&op);
  OBSERVE_X(&t, "transform"); REACH; }
/* BOUNDED */
//@check id=deep_iterate fn=_ZNK4ikos13patricia_treeI1K1VSt8equal_toIS2_EE6lookupERKS1_ props=C19 tag=lookup tier=thorough unwind=6 defs=SCN=SC_BUILD vary=CT:0-3 bounded="one concrete key set of 4 keys < 8 per run (4 sets), values symbolic" backends=minisat,kissat first_timeout=900 timeout=1200 cbmc=--unwindset,_ZNK4ikos19patricia_trees_impl4nodeI1K1VSt8equal_toIS3_EE6lookupERKS2_:3,--unwindset,_ZNK4ikos19patricia_trees_impl4nodeI1K1VSt8equal_toIS3_EE4findERKS2_:3,--unwindset,_ZN4ikos19patricia_trees_impl4treeI1K1VSt8equal_toIS3_EE6insertESt10shared_ptrIS6_ERKS2_RKS3_RNS_9binary_opIS2_S3_EEb:4,--unwindset,_ZN4ikos19patricia_trees_impl4treeI1K1VSt8equal_toIS3_EE5mergeESt10shared_ptrIS6_ES8_RNS_9binary_opIS2_S3_EEb:4,--unwindset,_ZN4ikos19patricia_trees_impl4treeI1K1VSt8equal_toIS3_EE7compareESt10shared_ptrIS6_ES8_RNS_13partial_orderIS3_EEb:4,--unwindset,_ZN4ikos19patricia_trees_impl4treeI1K1VSt8equal_toIS3_EE6removeESt10shared_ptrIS6_ERKS2_:4,--unwindset,_ZN4ikos19patricia_trees_impl4treeI1K1VSt8equal_toIS3_EE9transformESt10shared_ptrIS6_ERNS_8unary_opIS3_EE:4,--unwindset,_ZN4ikos19patricia_trees_impl4treeI1K1VSt8equal_toIS3_EE8iterator18look_for_next_leafESt10shared_ptrIS6_E:4
void h_deep_iterate(void){ GMASK(g_a, CT_A); GHOSTG(uint64_t, g_q); GHOSTG(uint64_t, g_k);
  __CPROVER_assume(g_k < PT_KEYS);
  PT t; build(&t, &g_a, PT_NMAX); PTIter it;
  pt_iterate(&it, &t, 5);
  __CPROVER_assert(it.f0 == m_size(&g_a), "iteration takes size() steps");
  __CPROVER_assert(it.f1.a[g_k] == (m_has(&g_a, g_k) ? 1 : 0), "iteration lists every binding exactly once");
  __CPROVER_assert(!m_has(&g_a, g_k) || it.f2.a[g_k] == m_val(&g_a, g_k), "iteration lists the bound value");
  __CPROVER_assert(it.f3 == 0, "iteration lists no other key");
  OBSERVE_X(&t, "iteration leaves the tree as it was"); REACH; }
/* a nested tree against itself / against a copy sharing its root (with symbolic keys only <= 1 binding is affordable here:
 * two reads of the same symbolic root are not syntactically equal for the symbolic execution, which then walks through
 * all of compare) */
/* BOUNDED */
//@check id=deep_leq_self fn=_ZNK4ikos13patricia_treeI1K1VSt8equal_toIS2_EE6lookupERKS1_ props=C19,C04 tag=lookup tier=thorough unwind=6 defs=SCN=SC_BUILD vary=CT:0-3 bounded="one concrete key set of 4 keys < 8 per run (4 sets), values symbolic" backends=minisat,kissat first_timeout=900 timeout=1200 cbmc=--unwindset,_ZNK4ikos19patricia_trees_impl4nodeI1K1VSt8equal_toIS3_EE6lookupERKS2_:3,--unwindset,_ZNK4ikos19patricia_trees_impl4nodeI1K1VSt8equal_toIS3_EE4findERKS2_:3,--unwindset,_ZN4ikos19patricia_trees_impl4treeI1K1VSt8equal_toIS3_EE6insertESt10shared_ptrIS6_ERKS2_RKS3_RNS_9binary_opIS2_S3_EEb:4,--unwindset,_ZN4ikos19patricia_trees_impl4treeI1K1VSt8equal_toIS3_EE5mergeESt10shared_ptrIS6_ES8_RNS_9binary_opIS2_S3_EEb:4,--unwindset,_ZN4ikos19patricia_trees_impl4treeI1K1VSt8equal_toIS3_EE7compareESt10shared_ptrIS6_ES8_RNS_13partial_orderIS3_EEb:4,--unwindset,_ZN4ikos19patricia_trees_impl4treeI1K1VSt8equal_toIS3_EE6removeESt10shared_ptrIS6_ERKS2_:4,--unwindset,_ZN4ikos19patricia_trees_impl4treeI1K1VSt8equal_toIS3_EE9transformESt10shared_ptrIS6_ERNS_8unary_opIS3_EE:4,--unwindset,_ZN4ikos19patricia_trees_impl4treeI1K1VSt8equal_toIS3_EE8iterator18look_for_next_leafESt10shared_ptrIS6_E:4
void h_deep_leq_self(void){ GMASK(g_a, CT_A); GHOSTG(uint64_t, g_q); GHOSTG(uint64_t, g_k);
  PT ta; build(&ta, &g_a, PT_NMAX); LEPO po; le_po_new(&po, g_k & 1);
  __CPROVER_assert(PT_LEQ(&ta, &ta, (PORD *)&po) == 1, "a tree is included in itself");
  OBSERVE_X(&ta, "leq: operand unchanged"); REACH; }
/* BOUNDED */
//@check id=deep_leq_copy fn=_ZNK4ikos13patricia_treeI1K1VSt8equal_toIS2_EE6lookupERKS1_ props=C19,C04 tag=lookup tier=thorough unwind=6 defs=SCN=SC_BUILD vary=CT:0-3 bounded="one concrete key set of 4 keys < 8 per run (4 sets), values symbolic" backends=minisat,kissat first_timeout=900 timeout=1200 cbmc=--unwindset,_ZNK4ikos19patricia_trees_impl4nodeI1K1VSt8equal_toIS3_EE6lookupERKS2_:3,--unwindset,_ZNK4ikos19patricia_trees_impl4nodeI1K1VSt8equal_toIS3_EE4findERKS2_:3,--unwindset,_ZN4ikos19patricia_trees_impl4treeI1K1VSt8equal_toIS3_EE6insertESt10shared_ptrIS6_ERKS2_RKS3_RNS_9binary_opIS2_S3_EEb:4,--unwindset,_ZN4ikos19patricia_trees_impl4treeI1K1VSt8equal_toIS3_EE5mergeESt10shared_ptrIS6_ES8_RNS_9binary_opIS2_S3_EEb:4,--unwindset,_ZN4ikos19patricia_trees_impl4treeI1K1VSt8equal_toIS3_EE7compareESt10shared_ptrIS6_ES8_RNS_13partial_orderIS3_EEb:4,--unwindset,_ZN4ikos19patricia_trees_impl4treeI1K1VSt8equal_toIS3_EE6removeESt10shared_ptrIS6_ERKS2_:4,--unwindset,_ZN4ikos19patricia_trees_impl4treeI1K1VSt8equal_toIS3_EE9transformESt10shared_ptrIS6_ERNS_8unary_opIS3_EE:4,--unwindset,_ZN4ikos19patricia_trees_impl4treeI1K1VSt8equal_toIS3_EE8iterator18look_for_next_leafESt10shared_ptrIS6_E:4
void h_deep_leq_copy(void){ GMASK(g_a, CT_A); GHOSTG(uint64_t, g_q); GHOSTG(uint64_t, g_k);
  PT ta, tc; build(&ta, &g_a, PT_NMAX); pt_copy(&tc, &ta); LEPO po; le_po_new(&po, g_k & 1);
  __CPROVER_assert(PT_LEQ(&ta, &tc, (PORD *)&po) == 1, "a tree is included in a copy of itself");
  OBSERVE_X(&tc, "the copy denotes the same map"); REACH; }

/* ===================== UNBOUNDED: the leaf level =====================
 * leaf::find / lookup / prefix / branching_bit neither recurse nor dispatch (K::index is a direct call), so they are
 * proved by contract for ARBITRARY leaves and keys, no bound.  (The node level is not: node::find / lookup reach their
 * children through a virtual call, and cbmc does not replace indirect calls by contracts.)  prefix() = the key's index
 * and branching_bit() = 0 are the facts about leaves that the routing lemmas of unit ptkern (L0, L3) take as hypotheses. */
typedef struct S_class_ikos__patricia_trees_impl__leaf LEAF;   /* f0 = tree { v-table }, f1 = _key, f2 = _value */
#define LFK(x) _ZNK4ikos19patricia_trees_impl4leafI1K1VSt8equal_toIS3_EE##x
//@check id=leaf_find fn=_ZNK4ikos19patricia_trees_impl4leafI1K1VSt8equal_toIS3_EE4findERKS2_ props=C19
V *LFK(4findERKS2_)(LEAF *self, K *key)
__CPROVER_requires(FRESH(leaf_find, self, sizeof(LEAF)) && FRESH(leaf_find, key, sizeof(K)))
__CPROVER_assigns()
__CPROVER_ensures(__CPROVER_return_value == (self->f1.f1 == key->f1 ? &self->f2 : (V *)0));
void h_leaf_find(void){ IN(LEAF, l); IN(K, k); LFK(4findERKS2_)(&l, &k); REACH; }
//@check id=leaf_lookup fn=_ZNK4ikos19patricia_trees_impl4leafI1K1VSt8equal_toIS3_EE6lookupERKS2_ props=C19
void LFK(6lookupERKS2_)(OPT *ret, LEAF *self, K *key)
__CPROVER_requires(FRESH(leaf_lookup, ret, sizeof(OPT)) && FRESH(leaf_lookup, self, sizeof(LEAF)) && FRESH(leaf_lookup, key, sizeof(K)))
__CPROVER_assigns(*ret)
__CPROVER_ensures(ret->f0.f0 == (self->f1.f1 == key->f1 ? 1 : 0))
__CPROVER_ensures(!opt_some(ret) || opt_val(ret) == self->f2.f0);
void h_leaf_lookup(void){ IN(LEAF, l); IN(K, k); OPT r; LFK(6lookupERKS2_)(&r, &l, &k); REACH; }
//@check id=leaf_prefix fn=_ZNK4ikos19patricia_trees_impl4leafI1K1VSt8equal_toIS3_EE6prefixEv props=C19
uint64_t LFK(6prefixEv)(LEAF *self)
__CPROVER_requires(FRESH(leaf_prefix, self, sizeof(LEAF)))
__CPROVER_assigns()
__CPROVER_ensures(__CPROVER_return_value == self->f1.f1);
uint64_t LFK(13branching_bitEv)(LEAF *self);
unsigned char LFK(7is_leafEv)(LEAF *self);
uint64_t LFK(4sizeEv)(LEAF *self);
void h_leaf_prefix(void){ IN(LEAF, l); LFK(6prefixEv)(&l);
  __CPROVER_assert(LFK(13branching_bitEv)(&l) == 0, "a leaf has branching bit 0");
  __CPROVER_assert(LFK(7is_leafEv)(&l) == 1, "a leaf is a leaf");
  __CPROVER_assert(LFK(4sizeEv)(&l) == 1, "a leaf has one binding");
  REACH; }
