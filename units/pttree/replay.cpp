// Native replay for unit pttree: the scenario of each harness is rebuilt with the REAL classes of the working tree
// (force.cpp is included: same key / value / operation types and shims), run natively, and every harness assertion
// and the enforced lookup postcondition are evaluated with the SAME model functions (spec.h).
#include "force.cpp"
#include "replay.h"
#include "spec.h"
static MIn get_in(const Wit &w, const char *g) {
  MIn a;
  std::string p(g);
  a.n = w.has(p + ".n") ? w.u(p + ".n") : 0;
  for (int i = 0; i < PT_NMAX; i++) {
    char b[64];
    snprintf(b, sizeof b, "%s.k[%d]", g, i); a.k[i] = w.has(b) ? w.u(b) : 0;
    snprintf(b, sizeof b, "%s.v[%d]", g, i); a.v[i] = w.has(b) ? w.u(b) : 0;
  }
  printf("  %s = {", g);
  for (uint64_t i = 0; i < a.n && i < PT_NMAX; i++) printf(" %llu -> %llu", (unsigned long long)a.k[i], (unsigned long long)a.v[i]);
  printf(" }\n");
  return a;
}
static long def(const Wit &w, const char *n, long d) {
  auto i = w.defs.find(n);
  if (i == w.defs.end()) return d;
  const std::string &s = i->second;
  if (s == "OP_MAX") return OP_MAX; if (s == "OP_MIN") return OP_MIN; if (s == "OP_WIDEN") return OP_WIDEN; if (s == "OP_FIRST") return OP_FIRST;
  if (s == "SC_BUILD") return 0; if (s == "SC_REMOVE") return 1; if (s == "SC_TRANSFORM") return 2; if (s == "SC_MERGE") return 3;
  return atol(s.c_str());
}
static void build(PT &t, const MIn &a) { for (uint64_t i = 0; i < a.n && i < PT_NMAX; i++) t.insert(K(a.k[i]), V(a.v[i])); }
#define CHK(c, what) do { bool c_ = (c); if (!c_) { printf("  VIOLATED: %s\n", what); ok = false; } } while (0)
// find / size / emptiness / lookup of tree t against an expected map given by has(c) / val(c)
template <class H, class W> static bool observe(const PT &t, uint64_t q, H has, W val, const char *what) {
  bool ok = true;
  const V *p = t.find(K(q));
  printf("  %s: find(%llu) = %s", what, (unsigned long long)q, p ? "bound" : "unbound");
  if (p) printf(" to %llu", (unsigned long long)p->v);
  printf(", expected %s", has(q) ? "bound" : "unbound");
  if (has(q)) printf(" to %llu", (unsigned long long)val(q));
  printf("; size() = %llu\n", (unsigned long long)t.size());
  CHK((p != nullptr) == has(q), "find finds exactly the bound keys");
  CHK(!p || p->v == val(q), "find returns the bound value");
  uint64_t n = 0;
  for (uint64_t c = 0; c < PT_KEYS; c++) n += has(c);
  CHK(t.size() == n, "size() is the number of bindings");
  CHK(t.empty() == (n == 0), "the tree is empty exactly if nothing is bound");
  boost::optional<V> r = t.lookup(K(q));
  CHK((bool)r == has(q), "lookup finds exactly the bound keys");
  CHK(!r || r->v == val(q), "lookup returns the bound value");
  return ok;
}
static bool one_tree(const Wit &wit, int scn, bool iterate) {
  MIn a = get_in(wit, "g_a");
  uint64_t q = wit.has("g_q") ? wit.u("g_q") : 0, k = wit.has("g_k") ? wit.u("g_k") : 0;
  bool ok = true;
  PT t;
  build(t, a);
  if (iterate) {
    PTIter it;
    pt_iterate(&it, &t, 5);
    printf("  iteration: %llu steps\n", (unsigned long long)it.steps);
    CHK(it.steps == m_size(&a), "iteration takes size() steps");
    if (k < 8) {
      CHK(it.cnt[k] == (m_has(&a, k) ? 1u : 0u), "iteration lists every binding exactly once");
      CHK(!m_has(&a, k) || it.val[k] == m_val(&a, k), "iteration lists the bound value");
    }
    CHK(it.other == 0, "iteration lists no other key");
  }
  if (scn == 1) { printf("  remove(%llu)\n", (unsigned long long)k); t.remove(K(k)); }
  if (scn == 2) { inc_op op; t.transform(op); }
  auto has = [&](uint64_t c) { return scn == 1 ? rem_has(&a, k, c) : scn == 2 ? inc_has(&a, c) : m_has(&a, c); };
  auto val = [&](uint64_t c) { return scn == 2 ? m_val(&a, c) + 1 : m_val(&a, c); };
  return observe(t, q, has, val, scn == 1 ? "remove" : scn == 2 ? "transform" : "insert") && ok;
}
REPLAY(build) { return one_tree(wit, 0, false); }
REPLAY(remove) { return one_tree(wit, 1, false); }
REPLAY(transform) { return one_tree(wit, 2, false); }
REPLAY(iterate) { return one_tree(wit, 0, true); }
static bool merge(const Wit &wit) {
  MIn a = get_in(wit, "g_a"), b = get_in(wit, "g_b");
  uint64_t q = wit.has("g_q") ? wit.u("g_q") : 0;
  int op = (int)def(wit, "OPK", OP_MAX);
  bool ok = true;
  PT ta, tb;
  build(ta, a); build(tb, b);
  max_op o0; min_op o1; widen_op o2; first_op o3;
  PT::binary_op_t *o = op == OP_MAX ? (PT::binary_op_t *)&o0 : op == OP_MIN ? (PT::binary_op_t *)&o1 : op == OP_WIDEN ? (PT::binary_op_t *)&o2 : (PT::binary_op_t *)&o3;
  bool bot = ta.merge_with(tb, *o);
  printf("  merge_with under %s: bottom = %d, expected %d\n", op == OP_MAX ? "max_op" : op == OP_MIN ? "min_op" : op == OP_WIDEN ? "widen_op" : "first_op", bot, mrg_bot(op, &a, &b));
  CHK(bot == mrg_bot(op, &a, &b), "merge_with signals bottom exactly if some apply did");
  ok = observe(tb, q, [&](uint64_t c) { return m_has(&b, c); }, [&](uint64_t c) { return m_val(&b, c); }, "argument") && ok;
  bool mb = mrg_bot(op, &a, &b);
  ok = observe(ta, q, [&](uint64_t c) { return mb ? m_has(&a, c) : mrg_has(op, &a, &b, c); },
               [&](uint64_t c) { return mb ? m_val(&a, c) : mrg_val(op, &a, &b, c); }, "merge_with") && ok;
  return ok;
}
REPLAY(merge_max) { return merge(wit); }
REPLAY(merge_min) { return merge(wit); }
REPLAY(merge_widen) { return merge(wit); }
REPLAY(merge_first) { return merge(wit); }
static bool leq(const Wit &wit) {
  MIn a = get_in(wit, "g_a"), b = get_in(wit, "g_b");
  uint64_t q = wit.has("g_q") ? wit.u("g_q") : 0;
  bool dtop = def(wit, "DTOP", 1) != 0, ok = true;
  PT ta, tb;
  build(ta, a); build(tb, b);
  le_po po(dtop);
  bool r = ta.leq(tb, po);
  printf("  leq (default_is_top = %d) = %d, pointwise order = %d\n", dtop, r, m_leq(&a, &b, dtop));
  CHK(r == m_leq(&a, &b, dtop), "leq answers yes exactly when the pointwise order holds");
  ok = observe(tb, q, [&](uint64_t c) { return m_has(&b, c); }, [&](uint64_t c) { return m_val(&b, c); }, "right operand") && ok;
  ok = observe(ta, q, [&](uint64_t c) { return m_has(&a, c); }, [&](uint64_t c) { return m_val(&a, c); }, "left operand") && ok;
  return ok;
}
REPLAY(leq_top) { return leq(wit); }
REPLAY(leq_bot) { return leq(wit); }
static bool leq_same(const Wit &wit, bool copy) {
  MIn a = get_in(wit, "g_a");
  uint64_t q = wit.has("g_q") ? wit.u("g_q") : 0, k = wit.has("g_k") ? wit.u("g_k") : 0;
  bool ok = true;
  PT ta;
  build(ta, a);
  PT tc(ta);
  le_po po(k & 1);
  bool r = copy ? ta.leq(tc, po) : ta.leq(ta, po);
  printf("  leq = %d\n", r);
  CHK(r, "a tree is included in itself / in a copy of itself");
  ok = observe(copy ? tc : ta, q, [&](uint64_t c) { return m_has(&a, c); }, [&](uint64_t c) { return m_val(&a, c); }, "operand") && ok;
  return ok;
}
REPLAY(leq_self) { return leq_same(wit, false); }
REPLAY(leq_copy) { return leq_same(wit, true); }
REPLAY(deep_build) { return one_tree(wit, 0, false); }
REPLAY(deep_remove) { return one_tree(wit, 1, false); }
REPLAY(deep_transform) { return one_tree(wit, 2, false); }
REPLAY(deep_iterate) { return one_tree(wit, 0, true); }
REPLAY(deep_merge_max) { return merge(wit); }
REPLAY(deep_merge_min) { return merge(wit); }
REPLAY(deep_merge_widen) { return merge(wit); }
REPLAY(deep_merge_first) { return merge(wit); }
REPLAY(deep_leq_top) { return leq(wit); }
REPLAY(deep_leq_bot) { return leq(wit); }
REPLAY(deep_leq_self) { return leq_same(wit, false); }
REPLAY(deep_leq_copy) { return leq_same(wit, true); }
// the unbounded leaf-level contracts: a real leaf with the witness key / value
typedef ikos::patricia_trees_impl::leaf<K, V, std::equal_to<V>> LEAF;
REPLAY(leaf_find) { LEAF l(K(wit.u("l.f1.f1")), V(wit.u("l.f2.f0"))); K k(wit.u("k.f1")); const V *p = l.find(k);
  return p == (l._key.i == k.i ? &l._value : nullptr); }
REPLAY(leaf_lookup) { LEAF l(K(wit.u("l.f1.f1")), V(wit.u("l.f2.f0"))); K k(wit.u("k.f1")); boost::optional<V> r = l.lookup(k);
  return (bool)r == (l._key.i == k.i) && (!r || r->v == l._value.v); }
REPLAY(leaf_prefix) { LEAF l(K(wit.u("l.f1.f1")), V(wit.u("l.f2.f0")));
  return l.prefix() == l._key.i && l.branching_bit() == 0 && l.is_leaf() && l.size() == 1; }
int main(int argc, char **argv) { return replay_main(argc, argv); }
