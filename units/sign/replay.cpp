// Native replay for unit sign: the real crab::domains::sign<z_number> of the working tree, the same POST_* macros as
// the contracts (spec.h).  Concrete * / % are the machine operations on the witness points here.
#include <crab/domains/sign.hpp>
#include <crab/domains/interval.hpp>
#include <crab/numbers/bignums.hpp>
#include "replay.h"
#include "spec.h"
using crab::domains::sign_interval;
using ikos::z_number;
typedef crab::domains::sign<z_number> sign_t;
typedef ikos::interval<z_number> interval_t;
typedef ikos::bound<z_number> bound_t;
static const char *KN[8] = {"BOT", "LTZ", "GTZ", "EQZ", "NEZ", "GEZ", "LEZ", "TOP"};
static sign_t mk(const Wit &w, const char *n) { uint32_t k = (uint32_t)w.u(std::string(n) + ".f0"); printf("  %s = %s\n", n, k < 8 ? KN[k] : "?"); return sign_t(static_cast<sign_interval>(k)); }
static uint32_t K_(const sign_t &s) { return (uint32_t)s.m_sign; }
static uint32_t res(const sign_t &s) { printf("  result = %s\n", K_(s) < 8 ? KN[K_(s)] : "?"); return K_(s); }
static i128 pt(const Wit &w, const char *n) { long long v = w.s(n); printf("  %s = %lld\n", n, v); return (i128)v; }
static z_number zn(i128 v) { return z_number((int64_t)v); }   /* witness points are below 2^40 */
#define RBIN(id, EXPR, DEF, OP) REPLAY(id) { sign_t a = mk(wit, "a"), b = mk(wit, "b"); i128 g_x = pt(wit, "g_x"), g_y = pt(wit, "g_y"); unsigned g_w = (unsigned)wit.u("g_w"); (void)g_w; \
  uint32_t rv = res(EXPR); if (s_hask(K_(a), g_x) && s_hask(K_(b), g_y) && (DEF)) printf("  concrete result = %lld\n", (long long)(OP)); return POST_bin(rv, K_(a), K_(b), g_x, g_y, DEF, OP); }
#define FITS (fits_w(g_x, g_w) && fits_w(g_y, g_w))
RBIN(s_add, a + b, 1, g_x + g_y) RBIN(s_sub, a - b, 1, g_x - g_y) RBIN(s_mul, a * b, 1, ZM_mul(g_x, g_y))
RBIN(s_div, a / b, g_y != 0, ZM_div(g_x, g_y)) RBIN(s_srem, a.SRem(b), g_y != 0, ZM_rem(g_x, g_y))
RBIN(s_udiv, a.UDiv(b), FITS && g_y != 0, c_udiv(g_x, g_y, g_w)) RBIN(s_urem, a.URem(b), FITS && g_y != 0, c_urem(g_x, g_y, g_w))
RBIN(s_and, a.And(b), 1, g_x & g_y) RBIN(s_or, a.Or(b), 1, g_x | g_y) RBIN(s_xor, a.Xor(b), 1, g_x ^ g_y)
RBIN(s_shl, a.Shl(b), g_y >= 0 && g_y <= 63, c_shl(g_x, g_y)) RBIN(s_lshr, a.LShr(b), FITS && g_y >= 0 && g_y < g_w, c_lshr(g_x, g_y, g_w))
RBIN(s_ashr, a.AShr(b), g_y >= 0, c_ashr(g_x, g_y))
/* the bit-precise thorough-tier variants share contract and harness */
RBIN(s_mul_precise, a * b, 1, ZM_mul(g_x, g_y)) RBIN(s_div_precise, a / b, g_y != 0, ZM_div(g_x, g_y)) RBIN(s_srem_precise, a.SRem(b), g_y != 0, ZM_rem(g_x, g_y))
REPLAY(s_join) { sign_t a = mk(wit, "a"), b = mk(wit, "b"); i128 g_x = pt(wit, "g_x"); uint32_t rv = res(a | b);
  return POST_join(rv, K_(a), K_(b), g_x) && POST_join_exact(rv, K_(a), K_(b), g_x) && POST_join_widen(rv, K_(a), K_(b)); }
REPLAY(s_meet) { sign_t a = mk(wit, "a"), b = mk(wit, "b"); i128 g_x = pt(wit, "g_x"); uint32_t rv = res(a & b);
  return POST_meet(rv, K_(a), K_(b), g_x) && POST_meet_exact(rv, K_(a), K_(b), g_x) && POST_meet_narrow(rv, K_(a), K_(b), g_x); }
REPLAY(s_leq) { sign_t a = mk(wit, "a"), b = mk(wit, "b"); i128 g_x = pt(wit, "g_x"); bool rv = a <= b; printf("  result = %d\n", rv); return POST_leq(rv, K_(a), K_(b), g_x); }
REPLAY(s_leq_refl) { sign_t a = mk(wit, "a"); return a <= a; }
REPLAY(s_eq) { sign_t a = mk(wit, "a"), b = mk(wit, "b"); bool rv = a == b; printf("  result = %d\n", rv); return POST_eq(rv, K_(a), K_(b)); }
REPLAY(s_is_bottom) { sign_t a = mk(wit, "a"); i128 g_x = pt(wit, "g_x"); bool rv = a.is_bottom(); printf("  result = %d\n", rv); return POST_is_bottom(rv, K_(a), g_x); }
REPLAY(s_is_top) { sign_t a = mk(wit, "a"); i128 g_x = pt(wit, "g_x"); bool rv = a.is_top(); printf("  result = %d\n", rv); return POST_is_top(rv, K_(a), g_x); }
REPLAY(s_agree) { return sign_t::bottom().is_bottom() && !sign_t::bottom().is_top() && sign_t::top().is_top() && !sign_t::top().is_bottom(); }
REPLAY(s_bottom) { return res(sign_t::bottom()) == S_BOT; }
REPLAY(s_top) { return res(sign_t::top()) == S_TOP; }
REPLAY(s_ctor_z) { long long c = (long long)wit.u("c.f0.a.f0"); printf("  c = %lld\n", c); sign_t r{z_number((int64_t)c)}; uint32_t k = res(r); return POST_ctor_z(k, (i128)c); }
REPLAY(s_ctor_bool) { bool isb = wit.u("isb") != 0; sign_t r(isb); return res(r) == (isb ? S_BOT : S_TOP); }
/* intervals: bounds rebuilt from the witness (flag, value); membership through the real interval<z_number>::operator[] */
static bound_t mkb(const Wit &w, const std::string &p) { long long v = (long long)w.u(p + ".f1.f0.a.f0"); if (w.u(p + ".f0")) return v > 0 ? bound_t::plus_infinity() : bound_t::minus_infinity(); return bound_t(z_number((int64_t)v)); }
REPLAY(s_from_interval) { sign_t a = mk(wit, "a"); i128 g_x = pt(wit, "g_x"); bound_t lb = mkb(wit, "i.f0"), ub = mkb(wit, "i.f1");
  interval_t i = interval_t::bottom(); i._lb = lb; i._ub = ub;       /* raw fields, exactly the witness object */
  crab::outs() << "  i = " << i << "\n"; uint32_t rv = res(a.from_interval(i)); return s_okk(rv) && (!i[zn(g_x)] || s_hask(rv, g_x)); }
REPLAY(s_to_interval) { sign_t a = mk(wit, "a"); i128 g_x = pt(wit, "g_x"); interval_t r = a.to_interval(); crab::outs() << "  result = " << r << "\n";
  return !s_hask(K_(a), g_x) || r[zn(g_x)]; }
int main(int argc, char **argv) { return replay_main(argc, argv); }
