// Forcing TU for unit `sign`: no logic of its own.  lib/sign.cpp exactly as it is (the explicit instantiation
// crab::domains::sign<ikos::z_number>), plus lib/interval.cpp exactly as it is (the explicit instantiations of
// ikos::bound<z_number> / ikos::interval<z_number> that sign::from_interval / to_interval call), so that those
// callees are verified in line instead of being assumed.  Both are reached through the include path of the
// working tree (-I<repo>/include), hence follow CRAB_REPO.
#include <../lib/sign.cpp>
#include <../lib/interval.cpp>
