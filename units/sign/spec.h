/* Specification vocabulary for crab::domains::sign<ikos::z_number> (include/crab/domains/sign.hpp,
 * sign_impl.hpp, lib/sign.cpp).  Shared by contracts.c (CBMC) and replay.cpp (native).
 * SG is the compiler's own lowering of the class: f0 = m_sign (enum class sign_interval).
 *
 * Stated meaning (sign.hpp): BOT empty, LTZ [-oo,0), GTZ (0,+oo], EQZ [0,0], NEZ [-oo,0) U (0,+oo],
 * GEZ [0,+oo], LEZ [-oo,0], TOP [-oo,+oo]: sets of integers. */
#ifndef SIGN_SPEC_H
#define SIGN_SPEC_H
#include "verif.h"
#include "unit_types.h"
#ifndef __cplusplus
#include "zmodel.h"          /* models/ is on the include path of the contract build only */
#endif
typedef struct S_class_crab__domains__sign SG;
typedef struct S_class_ikos__bound SB;
typedef struct S_class_ikos__interval SI;
#define S_BOT 0u
#define S_LTZ 1u
#define S_GTZ 2u
#define S_EQZ 3u
#define S_NEZ 4u
#define S_GEZ 5u
#define S_LEZ 6u
#define S_TOP 7u
#ifndef ZBITS
#define ZBITS 40
#endif
#define ZB (((i128)1) << ZBITS)     /* ghost points and finite interval bounds of INPUTS lie strictly inside (-ZB, ZB) */
/* representation invariant: one of the eight enumerators */
static inline bool s_okk(uint32_t k){ return k <= 7u; }
static inline bool s_ok(SG s){ return s_okk(s.f0); }
/* concretisation */
static inline bool s_hask(uint32_t k, i128 v){
  return k == S_TOP || (k == S_LTZ && v < 0) || (k == S_GTZ && v > 0) || (k == S_EQZ && v == 0) || (k == S_NEZ && v != 0)
      || (k == S_GEZ && v >= 0) || (k == S_LEZ && v <= 0); }
static inline bool s_has(SG s, i128 v){ return s_hask(s.f0, v); }
/* semantic inclusion: membership depends only on the sign of the point, so -1, 0, 1 represent all integers */
static inline bool s_leqk(uint32_t a, uint32_t b){ return (!s_hask(a, -1) || s_hask(b, -1)) && (!s_hask(a, 0) || s_hask(b, 0)) && (!s_hask(a, 1) || s_hask(b, 1)); }
static inline int s_rankk(uint32_t a){ return (s_hask(a, -1) ? 1 : 0) + (s_hask(a, 0) ? 1 : 0) + (s_hask(a, 1) ? 1 : 0); }
static inline bool s_emptyk(uint32_t a){ return s_rankk(a) == 0; }

/* ---- concrete operations on integers */
#ifdef __cplusplus
static inline i128 ZM_mul(i128 a, i128 b){ return a * b; }
static inline i128 ZM_div(i128 a, i128 b){ return a / b; }
static inline i128 ZM_rem(i128 a, i128 b){ return a % b; }
#endif
/* w-bit readings, 1 <= w <= 64 */
static inline bool fits_w(i128 v, unsigned w){ return v >= -((i128)1 << (w - 1)) && v < ((i128)1 << (w - 1)); }
static inline u128 u_of(i128 v, unsigned w){ return (u128)v & ((((u128)1) << w) - 1); }
static inline i128 s_of(u128 u, unsigned w){ return ((u >> (w - 1)) & 1) ? (i128)u - ((i128)1 << w) : (i128)u; }
static inline i128 c_udiv(i128 x, i128 y, unsigned w){ return s_of(u_of(x, w) / u_of(y, w), w); }   /* y != 0 */
static inline i128 c_urem(i128 x, i128 y, unsigned w){ return s_of(u_of(x, w) % u_of(y, w), w); }   /* y != 0 */
static inline i128 c_lshr(i128 x, i128 k, unsigned w){ return s_of(u_of(x, w) >> (unsigned)k, w); } /* 0 <= k < w */
static inline i128 c_shl(i128 x, i128 k){ return x * ((i128)1 << (unsigned)k); }                    /* 0 <= k <= 63 */
static inline i128 c_ashr(i128 x, i128 k){ return k >= 127 ? (x < 0 ? -1 : 0) : (x >> (unsigned)k); } /* k >= 0, floor */

/* ---- the parts of bound<z_number> / interval<z_number> needed for from_interval / to_interval
 * (same reading as units/interval/spec.h: a bound is (-oo | n | +oo), flag f0 with +-1 in f1) */
#ifdef __cplusplus
static inline i128 sb_val(SB b){ return (i128)(((u128)b.f1.f0.a.f1 << 64) | (u128)b.f1.f0.a.f0); }
#else
static inline i128 sb_val(SB b){ return ZV(&b.f1); }
#endif
static inline bool sb_inf(SB b){ return b.f0 != 0; }
static inline bool sb_pinf(SB b){ return b.f0 != 0 && sb_val(b) > 0; }
static inline bool sb_minf(SB b){ return b.f0 != 0 && sb_val(b) < 0; }
static inline bool sb_ok(SB b){ return b.f0 <= 1 && (b.f0 ? (sb_val(b) == 1 || sb_val(b) == -1) : (sb_val(b) > -ZB && sb_val(b) < ZB)); }
static inline bool sb_le(SB a, SB b){ return sb_minf(a) || sb_pinf(b) || (!sb_inf(a) && !sb_inf(b) && sb_val(a) <= sb_val(b)); }
static inline bool si_bot(SI i){ return !sb_le(i.f0, i.f1); }
static inline bool si_ok(SI i){ return sb_ok(i.f0) && sb_ok(i.f1) && (si_bot(i) ? (!sb_inf(i.f0) && !sb_inf(i.f1)) : (!sb_pinf(i.f0) && !sb_minf(i.f1))); }
static inline bool si_has(SI i, i128 x){ return (i.f0.f0 ? sb_val(i.f0) < 0 : sb_val(i.f0) <= x) && (i.f1.f0 ? sb_val(i.f1) > 0 : x <= sb_val(i.f1)); }

/* ---- postconditions (rv = returned enumerator, a/b = operand enumerators, x/y = concrete points) */
#define POST_is_bottom(rv, a, x)   (((rv) != 0) == ((a) == S_BOT) && ((rv) ? !s_hask(a, x) : (s_hask(a, -1) || s_hask(a, 0) || s_hask(a, 1))))
#define POST_is_top(rv, a, x)      (((rv) != 0) == ((a) == S_TOP) && (!(rv) || s_hask(a, x)))
#define POST_leq(rv, a, b, x)      (((rv) != 0) == s_leqk(a, b) && (((rv) && s_hask(a, x)) ? s_hask(b, x) : 1) \
                                    && (!s_emptyk(a) || (rv)) && ((b) != S_TOP || (rv)) && ((a) != (b) || (rv)))
#define POST_eq(rv, a, b)          (((rv) != 0) == ((a) == (b)))
/* join: contains the union (and, in this lattice, nothing else); as the widening of sign_domain: stationary on an
 * included argument, otherwise strictly more sign classes (at most 3) */
#define POST_join(rv, a, b, x)     (s_okk(rv) && ((s_hask(a, x) || s_hask(b, x)) ? s_hask(rv, x) : 1) && s_leqk(a, rv) && s_leqk(b, rv))
#define POST_join_exact(rv, a, b, x) (s_hask(rv, x) == (s_hask(a, x) || s_hask(b, x)))
#define POST_join_widen(rv, a, b)  ((s_leqk(b, a) ? (rv) == (a) : s_rankk(rv) > s_rankk(a)) && s_rankk(rv) <= 3)
/* meet: contains the intersection (exactly); as the narrowing of sign_domain: keeps the second argument of a decreasing pair */
#define POST_meet(rv, a, b, x)     (s_okk(rv) && ((s_hask(a, x) && s_hask(b, x)) ? s_hask(rv, x) : 1))
#define POST_meet_exact(rv, a, b, x) (s_hask(rv, x) == (s_hask(a, x) && s_hask(b, x)))
#define POST_meet_narrow(rv, a, b, x) (((s_leqk(b, a) && s_hask(b, x)) ? s_hask(rv, x) : 1) && (s_leqk(b, a) ? s_leqk(rv, a) : 1))
/* binary operation: result contains op(x,y) whenever x in a, y in b and the operation is defined */
#define POST_bin(rv, a, b, x, y, DEF, OP) (s_okk(rv) && ((s_hask(a, x) && s_hask(b, y) && (DEF)) ? s_hask(rv, OP) : 1))
#define POST_ctor_z(k, z)          ((k) == ((z) == 0 ? S_EQZ : (z) < 0 ? S_LTZ : S_GTZ) && s_hask(k, z))
#define POST_from_interval(rv, i, x) (s_okk(rv) && (si_has(i, x) ? s_hask(rv, x) : 1))
#define POST_to_interval(r, a, x)  (si_ok(r) && (s_hask(a, x) ? si_has(r, x) : 1))
#endif
