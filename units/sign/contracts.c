/* Contracts for crab::domains::sign<ikos::z_number> (sign_impl.hpp through lib/sign.cpp) — properties
 * C08 (every operation over-approximates the concrete operation on integers), C04 (inclusion test, join, meet,
 * is_bottom/is_top agree with the concretisation), C05 (sign_domain widens with `|` and narrows with `&`:
 * stationarity / strict growth of join, narrowing keeps its second argument).
 * The class is loop-free: every check is a full proof over all 8 x 8 abstract pairs and all concrete points
 * |g| < 2^40 (ghost points; see unit.json for the reading of * / % and of the unsigned operations). */
#include "spec.h"
i128 g_x, g_y;                      /* ghost concrete points: arbitrary, never assigned by the code */
unsigned g_w;                       /* ghost bit width for the unsigned operations */
#define GRANGE (g_x > -ZB && g_x < ZB && g_y > -ZB && g_y < ZB && g_w >= 1 && g_w <= 64)
#define HGHOSTS GHOSTG(i128, g_x); GHOSTG(i128, g_y); GHOSTG(unsigned, g_w)
#define F1(tag) FRESH(tag, self, sizeof(SG))
#define F2(tag) (FRESH(tag, self, sizeof(SG)) && FRESH(tag, x, sizeof(SG)))
#define RV __CPROVER_return_value
#define KS (self->f0)
#define KX (x->f0)

/* ---------------------------------------------------------------- constructors and factories */
//@check id=s_ctor_kind fn=_ZN4crab7domains4signIN4ikos8z_numberEEC2ENS0_13sign_intervalE props=C08,C04
void _ZN4crab7domains4signIN4ikos8z_numberEEC2ENS0_13sign_intervalE(SG *self, uint32_t s)
__CPROVER_requires(F1(s_ctor_kind) && s_okk(s))
__CPROVER_assigns(*self)
__CPROVER_ensures(KS == s);
void h_s_ctor_kind(void){ SG r; GHOST(uint32_t, s); _ZN4crab7domains4signIN4ikos8z_numberEEC2ENS0_13sign_intervalE(&r, s); REACH; }
/* sign(bool is_bottom): bottom or top */
//@check id=s_ctor_bool fn=_ZN4crab7domains4signIN4ikos8z_numberEEC2Eb props=C08,C04
void _ZN4crab7domains4signIN4ikos8z_numberEEC2Eb(SG *self, unsigned char is_bottom)
__CPROVER_requires(F1(s_ctor_bool) && is_bottom <= 1)
__CPROVER_assigns(*self)
__CPROVER_ensures(KS == (is_bottom ? S_BOT : S_TOP));
void h_s_ctor_bool(void){ SG r; GHOST(unsigned char, isb); _ZN4crab7domains4signIN4ikos8z_numberEEC2Eb(&r, isb); REACH; }
/* sign(Number c): the sign of c, and it describes c */
//@check id=s_ctor_z fn=_ZN4crab7domains4signIN4ikos8z_numberEEC2ES3_ props=C08
void _ZN4crab7domains4signIN4ikos8z_numberEEC2ES3_(SG *self, Z *c)
__CPROVER_requires(F1(s_ctor_z) && FRESH(s_ctor_z, c, sizeof(Z)) && ZV(c) > -ZB && ZV(c) < ZB)
__CPROVER_assigns(*self)
__CPROVER_ensures(POST_ctor_z(KS, ZV(c)));   /* *c is outside the frame: unchanged */
void h_s_ctor_z(void){ SG r; IN(Z, c); _ZN4crab7domains4signIN4ikos8z_numberEEC2ES3_(&r, &c); REACH; }

#define STATIC(tag, fn, KIND) \
uint32_t fn(void) \
__CPROVER_requires(TOP(tag, GRANGE)) \
__CPROVER_assigns() \
__CPROVER_ensures(RV == (KIND)) \
__CPROVER_ensures(TOP(tag, s_hask(RV, g_x) == s_hask(KIND, g_x))); \
void h_##tag(void){ HGHOSTS; fn(); REACH; }
//@check id=s_bottom fn=_ZN4crab7domains4signIN4ikos8z_numberEE6bottomEv props=C08,C04
STATIC(s_bottom, _ZN4crab7domains4signIN4ikos8z_numberEE6bottomEv, S_BOT)
//@check id=s_top fn=_ZN4crab7domains4signIN4ikos8z_numberEE3topEv props=C08,C04
STATIC(s_top, _ZN4crab7domains4signIN4ikos8z_numberEE3topEv, S_TOP)
//@check id=s_mk_eqz fn=_ZN4crab7domains4signIN4ikos8z_numberEE13mk_equal_zeroEv props=C08
STATIC(s_mk_eqz, _ZN4crab7domains4signIN4ikos8z_numberEE13mk_equal_zeroEv, S_EQZ)
//@check id=s_mk_ltz fn=_ZN4crab7domains4signIN4ikos8z_numberEE17mk_less_than_zeroEv props=C08
STATIC(s_mk_ltz, _ZN4crab7domains4signIN4ikos8z_numberEE17mk_less_than_zeroEv, S_LTZ)
//@check id=s_mk_gtz fn=_ZN4crab7domains4signIN4ikos8z_numberEE20mk_greater_than_zeroEv props=C08
STATIC(s_mk_gtz, _ZN4crab7domains4signIN4ikos8z_numberEE20mk_greater_than_zeroEv, S_GTZ)
//@check id=s_mk_lez fn=_ZN4crab7domains4signIN4ikos8z_numberEE26mk_less_or_equal_than_zeroEv props=C08
STATIC(s_mk_lez, _ZN4crab7domains4signIN4ikos8z_numberEE26mk_less_or_equal_than_zeroEv, S_LEZ)
//@check id=s_mk_gez fn=_ZN4crab7domains4signIN4ikos8z_numberEE29mk_greater_or_equal_than_zeroEv props=C08
STATIC(s_mk_gez, _ZN4crab7domains4signIN4ikos8z_numberEE29mk_greater_or_equal_than_zeroEv, S_GEZ)
//@check id=s_mk_nez fn=_ZN4crab7domains4signIN4ikos8z_numberEE17mk_not_equal_zeroEv props=C08
STATIC(s_mk_nez, _ZN4crab7domains4signIN4ikos8z_numberEE17mk_not_equal_zeroEv, S_NEZ)

/* ---------------------------------------------------------------- queries */
#define QUERY(tag, fn, POST) \
unsigned char fn(SG *self) \
__CPROVER_requires(F1(tag) && s_ok(*self) && TOP(tag, GRANGE)) \
__CPROVER_assigns() \
__CPROVER_ensures(TOP(tag, POST)); \
void h_##tag(void){ IN(SG, a); HGHOSTS; fn(&a); REACH; }
/* is_bottom() <=> no integer is described; is_top() => every integer is described */
//@check id=s_is_bottom fn=_ZNK4crab7domains4signIN4ikos8z_numberEE9is_bottomEv props=C08,C04
QUERY(s_is_bottom, _ZNK4crab7domains4signIN4ikos8z_numberEE9is_bottomEv, POST_is_bottom(RV, KS, g_x))
//@check id=s_is_top fn=_ZNK4crab7domains4signIN4ikos8z_numberEE6is_topEv props=C08,C04
QUERY(s_is_top, _ZNK4crab7domains4signIN4ikos8z_numberEE6is_topEv, POST_is_top(RV, KS, g_x))
/* kind tests: yes exactly on that element, and then the described set is the stated one */
#define POST_kind(KIND) ((RV != 0) == (KS == (KIND)) && (!RV || s_hask(KS, g_x) == s_hask(KIND, g_x)))
//@check id=s_equal_zero fn=_ZNK4crab7domains4signIN4ikos8z_numberEE10equal_zeroEv props=C08
QUERY(s_equal_zero, _ZNK4crab7domains4signIN4ikos8z_numberEE10equal_zeroEv, POST_kind(S_EQZ))
//@check id=s_less_than_zero fn=_ZNK4crab7domains4signIN4ikos8z_numberEE14less_than_zeroEv props=C08
QUERY(s_less_than_zero, _ZNK4crab7domains4signIN4ikos8z_numberEE14less_than_zeroEv, POST_kind(S_LTZ))
//@check id=s_greater_than_zero fn=_ZNK4crab7domains4signIN4ikos8z_numberEE17greater_than_zeroEv props=C08
QUERY(s_greater_than_zero, _ZNK4crab7domains4signIN4ikos8z_numberEE17greater_than_zeroEv, POST_kind(S_GTZ))
//@check id=s_less_or_equal_than_zero fn=_ZNK4crab7domains4signIN4ikos8z_numberEE23less_or_equal_than_zeroEv props=C08
QUERY(s_less_or_equal_than_zero, _ZNK4crab7domains4signIN4ikos8z_numberEE23less_or_equal_than_zeroEv, POST_kind(S_LEZ))
//@check id=s_greater_or_equal_than_zero fn=_ZNK4crab7domains4signIN4ikos8z_numberEE26greater_or_equal_than_zeroEv props=C08
QUERY(s_greater_or_equal_than_zero, _ZNK4crab7domains4signIN4ikos8z_numberEE26greater_or_equal_than_zeroEv, POST_kind(S_GEZ))
//@check id=s_not_equal_zero fn=_ZNK4crab7domains4signIN4ikos8z_numberEE14not_equal_zeroEv props=C08
QUERY(s_not_equal_zero, _ZNK4crab7domains4signIN4ikos8z_numberEE14not_equal_zeroEv, POST_kind(S_NEZ))
/* is_bottom/is_top agree with bottom()/top() (real functions composed in the harness; dfcc wants the enforced
 * function called exactly once: that is bottom(), everything else runs in line) */
//@check id=s_agree fn=_ZN4crab7domains4signIN4ikos8z_numberEE6bottomEv tag=s_bottom props=C04
void h_s_agree(void){ HGHOSTS; SG r;
  r.f0 = _ZN4crab7domains4signIN4ikos8z_numberEE6bottomEv();
  __CPROVER_assert(_ZNK4crab7domains4signIN4ikos8z_numberEE9is_bottomEv(&r), "bottom().is_bottom()");
  __CPROVER_assert(!_ZNK4crab7domains4signIN4ikos8z_numberEE6is_topEv(&r), "!bottom().is_top()");
  r.f0 = _ZN4crab7domains4signIN4ikos8z_numberEE3topEv();
  __CPROVER_assert(_ZNK4crab7domains4signIN4ikos8z_numberEE6is_topEv(&r), "top().is_top()");
  __CPROVER_assert(!_ZNK4crab7domains4signIN4ikos8z_numberEE9is_bottomEv(&r), "!top().is_bottom()");
  REACH; }

/* ---------------------------------------------------------------- order and lattice operations */
//@check id=s_leq fn=_ZNK4crab7domains4signIN4ikos8z_numberEEleERKS4_ props=C08,C04
unsigned char _ZNK4crab7domains4signIN4ikos8z_numberEEleERKS4_(SG *self, SG *x)
__CPROVER_requires(F2(s_leq) && s_ok(*self) && s_ok(*x) && TOP(s_leq, GRANGE))
__CPROVER_assigns()
__CPROVER_ensures(TOP(s_leq, POST_leq(RV, KS, KX, g_x)));
void h_s_leq(void){ IN(SG, a); IN(SG, b); HGHOSTS; _ZNK4crab7domains4signIN4ikos8z_numberEEleERKS4_(&a, &b); REACH; }
/* reflexivity with the same object on both sides */
//@check id=s_leq_refl fn=_ZNK4crab7domains4signIN4ikos8z_numberEEleERKS4_ tag=s_leq props=C04
void h_s_leq_refl(void){ IN(SG, a); HGHOSTS; unsigned char r = _ZNK4crab7domains4signIN4ikos8z_numberEEleERKS4_(&a, &a); __CPROVER_assert(r, "x <= x"); REACH; }
//@check id=s_eq fn=_ZNK4crab7domains4signIN4ikos8z_numberEEeqERKS4_ props=C08,C04
unsigned char _ZNK4crab7domains4signIN4ikos8z_numberEEeqERKS4_(SG *self, SG *x)
__CPROVER_requires(F2(s_eq) && s_ok(*self) && s_ok(*x))
__CPROVER_assigns()
__CPROVER_ensures(POST_eq(RV, KS, KX));
void h_s_eq(void){ IN(SG, a); IN(SG, b); _ZNK4crab7domains4signIN4ikos8z_numberEEeqERKS4_(&a, &b); REACH; }

#define SOP(tag, fn, POST) \
uint32_t fn(SG *self, SG *x) \
__CPROVER_requires(F2(tag) && s_ok(*self) && s_ok(*x) && TOP(tag, GRANGE)) \
__CPROVER_assigns() \
__CPROVER_ensures(s_okk(RV)) \
__CPROVER_ensures(TOP(tag, POST)); \
void h_##tag(void){ IN(SG, a); IN(SG, b); HGHOSTS; fn(&a, &b); REACH; }
//@check id=s_join fn=_ZNK4crab7domains4signIN4ikos8z_numberEEorERKS4_ props=C08,C04,C05
SOP(s_join, _ZNK4crab7domains4signIN4ikos8z_numberEEorERKS4_,
    POST_join(RV, KS, KX, g_x) && POST_join_exact(RV, KS, KX, g_x) && POST_join_widen(RV, KS, KX))
//@check id=s_meet fn=_ZNK4crab7domains4signIN4ikos8z_numberEEanERKS4_ props=C08,C04,C05
SOP(s_meet, _ZNK4crab7domains4signIN4ikos8z_numberEEanERKS4_,
    POST_meet(RV, KS, KX, g_x) && POST_meet_exact(RV, KS, KX, g_x) && POST_meet_narrow(RV, KS, KX, g_x))

/* ---------------------------------------------------------------- arithmetic */
#define SBIN(tag, fn, DEF, OP) SOP(tag, fn, POST_bin(RV, KS, KX, g_x, g_y, DEF, OP))
//@check id=s_add fn=_ZNK4crab7domains4signIN4ikos8z_numberEEplERKS4_ props=C08
SBIN(s_add, _ZNK4crab7domains4signIN4ikos8z_numberEEplERKS4_, 1, g_x + g_y)
//@check id=s_sub fn=_ZNK4crab7domains4signIN4ikos8z_numberEEmiERKS4_ props=C08
SBIN(s_sub, _ZNK4crab7domains4signIN4ikos8z_numberEEmiERKS4_, 1, g_x - g_y)
//@check id=s_mul fn=_ZNK4crab7domains4signIN4ikos8z_numberEEmlERKS4_ props=C08
SBIN(s_mul, _ZNK4crab7domains4signIN4ikos8z_numberEEmlERKS4_, 1, ZM_mul(g_x, g_y))
/* signed division truncates toward zero; defined for a non-zero divisor */
//@check id=s_div fn=_ZNK4crab7domains4signIN4ikos8z_numberEEdvERKS4_ props=C08
SBIN(s_div, _ZNK4crab7domains4signIN4ikos8z_numberEEdvERKS4_, g_y != 0, ZM_div(g_x, g_y))
//@check id=s_srem fn=_ZNK4crab7domains4signIN4ikos8z_numberEE4SRemERKS4_ props=C08
SBIN(s_srem, _ZNK4crab7domains4signIN4ikos8z_numberEE4SRemERKS4_, g_y != 0, ZM_rem(g_x, g_y))
/* unsigned division / remainder: for every width g_w in which both points are representable */
#define FITS (fits_w(g_x, g_w) && fits_w(g_y, g_w))
//@check id=s_udiv fn=_ZNK4crab7domains4signIN4ikos8z_numberEE4UDivERKS4_ props=C08
SBIN(s_udiv, _ZNK4crab7domains4signIN4ikos8z_numberEE4UDivERKS4_, FITS && g_y != 0, c_udiv(g_x, g_y, g_w))
//@check id=s_urem fn=_ZNK4crab7domains4signIN4ikos8z_numberEE4URemERKS4_ props=C08
SBIN(s_urem, _ZNK4crab7domains4signIN4ikos8z_numberEE4URemERKS4_, FITS && g_y != 0, c_urem(g_x, g_y, g_w))
/* bitwise operations: infinite-precision two's complement */
//@check id=s_and fn=_ZNK4crab7domains4signIN4ikos8z_numberEE3AndERKS4_ props=C08
SBIN(s_and, _ZNK4crab7domains4signIN4ikos8z_numberEE3AndERKS4_, 1, g_x & g_y)
//@check id=s_or fn=_ZNK4crab7domains4signIN4ikos8z_numberEE2OrERKS4_ props=C08
SBIN(s_or, _ZNK4crab7domains4signIN4ikos8z_numberEE2OrERKS4_, 1, g_x | g_y)
//@check id=s_xor fn=_ZNK4crab7domains4signIN4ikos8z_numberEE3XorERKS4_ props=C08
SBIN(s_xor, _ZNK4crab7domains4signIN4ikos8z_numberEE3XorERKS4_, 1, g_x ^ g_y)
/* shifts: x * 2^k, logical shift at width g_w, floor shift */
//@check id=s_shl fn=_ZNK4crab7domains4signIN4ikos8z_numberEE3ShlERKS4_ props=C08
SBIN(s_shl, _ZNK4crab7domains4signIN4ikos8z_numberEE3ShlERKS4_, g_y >= 0 && g_y <= 63, c_shl(g_x, g_y))
//@check id=s_lshr fn=_ZNK4crab7domains4signIN4ikos8z_numberEE4LShrERKS4_ props=C08
SBIN(s_lshr, _ZNK4crab7domains4signIN4ikos8z_numberEE4LShrERKS4_, FITS && g_y >= 0 && g_y < g_w, c_lshr(g_x, g_y, g_w))
//@check id=s_ashr fn=_ZNK4crab7domains4signIN4ikos8z_numberEE4AShrERKS4_ props=C08
SBIN(s_ashr, _ZNK4crab7domains4signIN4ikos8z_numberEE4AShrERKS4_, g_y >= 0, c_ashr(g_x, g_y))

/* bounded cross-check (thorough tier): the same contracts with * / % bit-precise on points |g| < 2^6 (ZM_PRECISE):
 * the uninterpreted reading above agrees with the machine operations; NOT counted as proof */
//@check id=s_mul_precise fn=_ZNK4crab7domains4signIN4ikos8z_numberEEmlERKS4_ tag=s_mul harness=h_s_mul props=C08 tier=thorough defs=ZM_PRECISE,ZBITS=6 bounded="bit-precise small arithmetic: operands below 2^6 in magnitude only"
//@check id=s_div_precise fn=_ZNK4crab7domains4signIN4ikos8z_numberEEdvERKS4_ tag=s_div harness=h_s_div props=C08 tier=thorough defs=ZM_PRECISE,ZBITS=6 bounded="bit-precise small arithmetic: operands below 2^6 in magnitude only"
//@check id=s_srem_precise fn=_ZNK4crab7domains4signIN4ikos8z_numberEE4SRemERKS4_ tag=s_srem harness=h_s_srem props=C08 tier=thorough defs=ZM_PRECISE,ZBITS=6 bounded="bit-precise small arithmetic: operands below 2^6 in magnitude only"

/* ---------------------------------------------------------------- conversions from / to intervals */
//@check id=s_from_interval fn=_ZNK4crab7domains4signIN4ikos8z_numberEE13from_intervalERKNS2_8intervalIS3_EE props=C08 backends=cvc5,z3,kissat first_timeout=200 cost=5
uint32_t _ZNK4crab7domains4signIN4ikos8z_numberEE13from_intervalERKNS2_8intervalIS3_EE(SG *self, SI *i)
__CPROVER_requires(F1(s_from_interval) && FRESH(s_from_interval, i, sizeof(SI)) && s_ok(*self) && si_ok(*i) && TOP(s_from_interval, GRANGE))
__CPROVER_assigns()
__CPROVER_ensures(s_okk(RV))
__CPROVER_ensures(TOP(s_from_interval, POST_from_interval(RV, *i, g_x)));
void h_s_from_interval(void){ IN(SG, a); IN(SI, i); HGHOSTS; _ZNK4crab7domains4signIN4ikos8z_numberEE13from_intervalERKNS2_8intervalIS3_EE(&a, &i); REACH; }
//@check id=s_to_interval fn=_ZNK4crab7domains4signIN4ikos8z_numberEE11to_intervalEv props=C08
void _ZNK4crab7domains4signIN4ikos8z_numberEE11to_intervalEv(SI *ret, SG *self)
__CPROVER_requires(FRESH(s_to_interval, ret, sizeof(SI)) && F1(s_to_interval) && s_ok(*self) && TOP(s_to_interval, GRANGE))
__CPROVER_assigns(*ret)
__CPROVER_ensures(si_ok(*ret))
__CPROVER_ensures(TOP(s_to_interval, POST_to_interval(*ret, KS, g_x)));
void h_s_to_interval(void){ IN(SG, a); HGHOSTS; SI r; _ZNK4crab7domains4signIN4ikos8z_numberEE11to_intervalEv(&r, &a); REACH; }
