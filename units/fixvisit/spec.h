/* Specification vocabulary for the loop-head strategy of the fixpoint engine:
 * ikos::interleaved_fwd_fixpoint_iterator_impl::wto_iterator<TCFG,GV>::visit(wto_cycle_t&)  (units/fixvisit/force.cpp).
 *
 * The property sentences decided here (C05 / C06) are statements about the ORDER in which visit() applies the domain
 * operations at a loop head: "widening applied at every WTO cycle head once iteration > widening_delay; the loop exits
 * only when new_pre <= pre" (C05), "no extrapolation while a loop head has been iterated at most widening_delay times",
 * "only back edges into the head with deeper nesting are excluded from the initial join" (C06).  extrapolate()/refine()
 * themselves are proved in unit fixpo (result = J / W / WT as a function of `iteration` versus widening_delay); what is
 * proved HERE is that visit() hands them iteration = 1, 2, 3, ... = the number of times the head has been iterated, the
 * value the pass was computed from and the join of ALL predecessors' current posts, and leaves the ascending loop only
 * after `new_pre <= pre` answered yes.
 *
 * Technique: a GHOST MONITOR.  The abstract value GV is an opaque handle; J / MEET / POST / EXT / REF are distinct
 * uninterpreted symbols; the callees of visit() that are outside this unit's reach (invariant tables, compute_post,
 * extrapolate, refine, WTO nesting) are models that (1) CHECK, as named assertions, that they are called in the order
 * and with the operands the property dictates and (2) advance ghost counters.  The contract of visit() then states the
 * end-to-end facts over the ghost state. */
#ifndef FIXVISIT_SPEC_H
#define FIXVISIT_SPEC_H
#include "verif.h"
#ifndef __cplusplus
#include "unit_types.h"
typedef struct S_class_ikos__interleaved_fwd_fixpoint_iterator_impl__wto_iterator WI;  /* f1 m_iterator, f2 m_entry, f3 &m_absval_fac, f4 m_assumptions, f5 m_skip */
typedef struct S_class_ikos__interleaved_fwd_fixpoint_iterator IT;                      /* f4 = &m_params */
typedef struct S_class_ikos__wto_cycle CYC;                                              /* f0 vptr, f1 _head, f2 _wto_components, f3 _num_fixpo */
typedef struct S_class_ikos__wto_vertex VTX;                                             /* f0 vptr, f1 _node */
typedef struct S_class_crab__fixpoint_parameters PARAMS;                                 /* f0 widening_delay, f1 descending_iterations, f2 max_thresholds */
typedef struct S_struct_GV GV;
typedef struct S_class_ikos__wto_nesting NEST;
typedef struct S_class_boost__optional OPTN;
typedef struct S_class_boost__container__slist SLIST;
typedef struct S_class_std__unordered_map_21 AMAP;                                       /* std::unordered_map<label, GV> (assumptions) */
typedef struct S_struct_std____detail___Hash_node ANODE;
typedef struct S_struct_std__pair APAIR;
typedef struct S_class_ikos__wto WTO;
typedef struct S_struct_boost__container__base_node SNODE;                                /* slist node: f0 hook (next), f1 the shared_ptr<wto_component> */
typedef struct S_struct_TCFG TCFG;
#define SLIST_ROOT(l) ((l)->f0.f0.f0.f0.f1.f0.f0)
#define SLIST_SIZE(l) ((l)->f0.f0.f0.f0.f0.f0)
#define AMAP_COUNT(m) ((m)->f0.f3)
#define ANODE_PAIR(n) ((APAIR *)&(n)->f1)
#define DESC_ITERS(wi) ((wi)->f1->f4->f1)
#ifndef NPMAX
#define NPMAX 2          /* BOUND: at most 2 predecessors of the loop head */
#endif
#ifndef KMAX
#define KMAX 3           /* BOUND: the ascending sequence stabilises within KMAX passes; descending_iterations < KMAX */
#endif
uint64_t __CPROVER_uninterpreted_fv_join(uint64_t, uint64_t);
uint64_t __CPROVER_uninterpreted_fv_meet(uint64_t, uint64_t);
uint64_t __CPROVER_uninterpreted_fv_post(uint64_t, uint64_t);                 /* post-invariant of a block after `epoch` body passes */
uint64_t __CPROVER_uninterpreted_fv_pre0(uint64_t);                           /* pre-invariant stored before visit() starts */
uint64_t __CPROVER_uninterpreted_fv_ext(uint64_t, uint64_t, uint64_t, uint64_t);
uint64_t __CPROVER_uninterpreted_fv_ref(uint64_t, uint64_t, uint64_t, uint64_t);
uint64_t __CPROVER_uninterpreted_fv_const(uint64_t);
uint64_t __CPROVER_uninterpreted_fv_deeper(uint64_t, uint64_t);               /* bit 0: nesting(a) > nesting(b) */
#define J(a, b) __CPROVER_uninterpreted_fv_join(a, b)
#define MEET(a, b) __CPROVER_uninterpreted_fv_meet(a, b)
#define POST(l, e) __CPROVER_uninterpreted_fv_post(l, e)
#define PRE0(l) __CPROVER_uninterpreted_fv_pre0(l)
#define EXT(n, i, a, b) __CPROVER_uninterpreted_fv_ext(n, i, a, b)
#define REF(n, i, a, b) __CPROVER_uninterpreted_fv_ref(n, i, a, b)
#define BOT __CPROVER_uninterpreted_fv_const(0)
#define TOPV __CPROVER_uninterpreted_fv_const(1)
#define DEEPER(a, b) ((__CPROVER_uninterpreted_fv_deeper(a, b) & 1) != 0)
/* ---- scenario (chosen by the harness) and monitor state (advanced by the models) */
extern uint64_t g_head, g_np, g_preds[NPMAX], g_akey; extern ANODE *g_anode;
/* optional single body component (a vertex g_body with g_nbp <= 1 predecessors g_bp) */
extern uint64_t g_has_body, g_body, g_nbp, g_bp[1]; extern uint32_t g_body_cp; extern uint64_t g_body_pre; extern uint8_t g_body_pre_set;
extern uint32_t g_mode, g_epoch, g_phase, g_ext_n, g_ref_n, g_leq_n, g_cp_n, g_setpre_n;
extern uint64_t g_cur, g_first, g_pre_tab, g_fix, g_last_ref, g_leq_a, g_leq_b;
extern uint8_t g_pre_tab_set, g_leq_r;
extern uint32_t _ZN4crab13CrabVerbosityE;
#define VERBOSITY _ZN4crab13CrabVerbosityE
/* join of the CURRENT posts of ALL predecessors, folded left to right from bottom (what `new_pre` must be) */
static inline uint64_t fold_all(uint64_t e){
  uint64_t v = BOT;
  if (g_np >= 1) v = J(v, POST(g_preds[0], e));
  if (g_np >= 2) v = J(v, POST(g_preds[1], e));
  return v; }
/* pre-invariant of the body vertex: join of the current posts of ALL its predecessors */
static inline uint64_t fold_body(uint64_t e){ uint64_t v = BOT; if (g_nbp >= 1) v = J(v, POST(g_bp[0], e)); return v; }
/* initial join: only predecessors whose nesting is NOT deeper than the cycle's (i.e. not the back edges) */
static inline uint64_t fold_init(void){
  uint64_t v = BOT;
  if (g_np >= 1 && !DEEPER(g_preds[0], g_head)) v = J(v, POST(g_preds[0], 0));
  if (g_np >= 2 && !DEEPER(g_preds[1], g_head)) v = J(v, POST(g_preds[1], 0));
  return v; }
#endif
#endif
