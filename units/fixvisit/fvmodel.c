/* Models for unit fixvisit: the ghost value GV, the ghost monitor, and the callees of wto_iterator::visit that are
 * outside this unit's reach (see spec.h and unit.json "assumptions"). */
#include "spec.h"
uint64_t g_head, g_np, g_preds[NPMAX], g_akey; ANODE *g_anode;
uint64_t g_has_body, g_body, g_nbp, g_bp[1]; uint32_t g_body_cp; uint64_t g_body_pre; uint8_t g_body_pre_set;
uint32_t g_mode; /* 0: visit(cycle), 1: visit(vertex) */
uint32_t g_epoch, g_phase, g_ext_n, g_ref_n, g_leq_n, g_cp_n, g_setpre_n;
uint64_t g_cur, g_first, g_pre_tab, g_fix, g_last_ref, g_leq_a, g_leq_b;
uint8_t g_pre_tab_set, g_leq_r;
uint32_t _ZN4crab13CrabVerbosityE = 0;
/* ---- ghost value: distinct uninterpreted operations */
uint64_t _ZNK2GV11make_bottomEv(GV *self){ return BOT; }
uint64_t _ZNK2GV8make_topEv(GV *self){ return TOPV; }
void _ZN2GVoRERKS_(GV *a, GV *b){ a->f0 = J(a->f0, b->f0); }
uint64_t _ZNK2GVorERKS_(GV *a, GV *b){ return J(a->f0, b->f0); }
uint64_t _ZNK2GVanERKS_(GV *a, GV *b){ return MEET(a->f0, b->f0); }
/* operator<= : an ARBITRARY answer (the domain decides); the monitor checks WHAT is compared and records the answer */
unsigned char _ZNK2GVleERKS_(GV *a, GV *b){
  unsigned char r; r = r & 1;
  __CPROVER_assert(g_phase <= 1, "no inclusion test after the descending sequence ended");
  if (g_has_body) __CPROVER_assert(g_body_cp == g_cp_n, "every pass over the head is followed by exactly one pass over the components of the cycle before the test");
  if (g_phase == 0) {
    __CPROVER_assert(a->f0 == fold_all(g_epoch), "ascending: the fixpoint test's left operand is the join of the current posts of ALL predecessors of the head");
    __CPROVER_assert(b->f0 == g_cur, "ascending: the fixpoint test's right operand is the value the last pass was computed from");
    if (g_leq_n + 1 >= KMAX) __CPROVER_assume(r);      /* BOUND: stabilises within KMAX passes */
    if (r) { g_fix = a->f0; g_phase = 1; }
  } else {
    __CPROVER_assert(a->f0 == g_cur, "descending: the refinement test's left operand is the value the last pass was computed from");
    __CPROVER_assert(b->f0 == fold_all(g_epoch), "descending: the refinement test's right operand is the join of the current posts of ALL predecessors");
    if (r) g_phase = 2;
  }
  g_leq_a = a->f0; g_leq_b = b->f0; g_leq_r = r; g_leq_n++;
  return r; }
/* ---- ASSUMED: the invariant tables m_pre / m_post behave as maps (get_pre / get_post / set_pre / set_post are
 * find/insert wrappers over std::unordered_map; their bodies are dropped) */
uint64_t _ZNK4ikos33interleaved_fwd_fixpoint_iteratorI4TCFG2GVE8get_postEm(IT *it, uint64_t l){ return POST(l, g_epoch); }
uint64_t _ZNK4ikos33interleaved_fwd_fixpoint_iteratorI4TCFG2GVE7get_preEm(IT *it, uint64_t l){
  return (l == g_head && g_pre_tab_set) ? g_pre_tab : PRE0(l); }
void _ZN4ikos33interleaved_fwd_fixpoint_iteratorI4TCFG2GVE7set_preEmRKS2_(IT *it, uint64_t l, GV *v){
  if (g_has_body && l == g_body && l != g_head) { g_body_pre = v->f0; g_body_pre_set = 1; return; }
  __CPROVER_assert(l == g_head, "pre-invariants are stored for the blocks being visited only");
  g_pre_tab = v->f0; g_pre_tab_set = 1; g_setpre_n++; }
void _ZN4ikos33interleaved_fwd_fixpoint_iteratorI4TCFG2GVE8set_postEmOS2_(IT *it, uint64_t l, GV *v){ }
/* ---- ASSUMED: compute_post(node, inv) = set_post(node, analyze(node, inv)); one call = the head iterated once */
void _ZN4ikos38interleaved_fwd_fixpoint_iterator_impl12wto_iteratorI4TCFG2GVE12compute_postEmS3_(WI *wi, uint64_t node, uint64_t inv){
  if (g_has_body && node == g_body && node != g_head) {
    __CPROVER_assert(g_body_cp + 1 == g_cp_n, "the components of the cycle are analysed once per pass, after the head");
    uint64_t want = fold_body(g_epoch);
    if (wi->f4 != 0 && AMAP_COUNT(wi->f4) != 0 && g_akey == node && g_anode != 0) want = MEET(want, ANODE_PAIR(g_anode)->f1.f0);
    __CPROVER_assert(g_phase <= 1 && inv == want && g_body_pre_set && g_body_pre == inv, "a vertex of the cycle is analysed from the join of the current posts of ALL its predecessors (strengthened by its assumption, if any), which is stored as its pre-invariant");
    g_body_cp++; g_epoch++; return; }
  __CPROVER_assert(node == g_head, "the block analysed at a cycle is its head");
  if (g_has_body) __CPROVER_assert(g_body_cp == g_cp_n, "the previous pass over the head was followed by a pass over the components");
  if (g_mode == 1)
    __CPROVER_assert(g_cp_n == 0 && inv == (g_pre_tab_set ? g_pre_tab : PRE0(node)), "vertex: analysed once, from its stored pre-invariant");
  else if (g_phase == 0)
    __CPROVER_assert(g_pre_tab_set && g_pre_tab == inv, "ascending: the head's stored pre-invariant is the value the pass is computed from");
  else {
    __CPROVER_assert(g_phase == 1, "no pass after the descending sequence ended");
    __CPROVER_assert(inv == (g_ref_n == 0 ? g_fix : g_last_ref), "descending: the pass is computed from the post-fixpoint, then from the last refinement"); }
  if (g_cp_n == 0) g_first = inv;
  g_cur = inv; g_cp_n++; g_epoch++; }
/* ---- extrapolate / refine: proved in unit fixpo as functions of (iteration, before, after); here they CHECK the call
 * discipline the properties demand of visit() */
uint64_t _ZN4ikos33interleaved_fwd_fixpoint_iteratorI4TCFG2GVE11extrapolateEmjRS2_S4_(IT *it, uint64_t node, uint32_t iteration, GV *before, GV *after){
  __CPROVER_assert(g_phase == 0, "no extrapolation once the post-fixpoint is reached");
  __CPROVER_assert(node == g_head, "extrapolation happens at the cycle head");
  __CPROVER_assert(iteration == g_cp_n, "extrapolate's iteration argument is the number of times the head has been iterated so far (C06: delay counted per head, from 1)");
  __CPROVER_assert(iteration == g_ext_n + 1, "the k-th extrapolation at this head gets iteration k");
  __CPROVER_assert(before->f0 == g_cur, "extrapolate's first operand is the value the pass was computed from");
  __CPROVER_assert(after->f0 == fold_all(g_epoch), "extrapolate's second operand is the join of the current posts of ALL predecessors");
  __CPROVER_assert(g_leq_n == g_cp_n && g_leq_a == after->f0 && g_leq_b == before->f0 && !g_leq_r, "extrapolation only after `new_pre <= pre` answered no for exactly these values");
  g_ext_n++;
  return EXT(node, iteration, before->f0, after->f0); }
uint64_t _ZN4ikos33interleaved_fwd_fixpoint_iteratorI4TCFG2GVE6refineEmjRS2_S4_(IT *it, uint64_t node, uint32_t iteration, GV *before, GV *after){
  __CPROVER_assert(g_phase == 1, "refinement only in the descending phase, before it ended");
  __CPROVER_assert(node == g_head, "refinement happens at the cycle head");
  __CPROVER_assert(iteration == g_ref_n + 1, "the k-th refinement at this head gets iteration k (meet first, then narrowing)");
  __CPROVER_assert(iteration <= it->f4->f1, "at most descending_iterations refinements");
  __CPROVER_assert(before->f0 == g_cur, "refine's first operand is the value the pass was computed from");
  __CPROVER_assert(after->f0 == fold_all(g_epoch), "refine's second operand is the join of the current posts of ALL predecessors");
  __CPROVER_assert(g_leq_a == before->f0 && g_leq_b == after->f0 && !g_leq_r, "refinement only after `pre <= new_pre` answered no for exactly these values");
  g_ref_n++; g_last_ref = REF(node, iteration, before->f0, after->f0);
  return g_last_ref; }
/* ---- ASSUMED (WTO, property C07, not claimed): wto::nesting(n) finds a nesting for every node; nestings are opaque
 * (the label is kept as identity), `a > b` is an uninterpreted relation DEEPER(a, b); copies and destruction are trivial */
void _ZN4ikos3wtoI4TCFGE7nestingEm(OPTN *ret, WTO *w, uint64_t n){
  NEST *s = (NEST *)&ret->f0.f2;
  ret->f0.f0 = 1; s->f0.f0.f0 = (struct S_class_std__vector *)n; s->f0.f0.f1.f0 = 0; }
void _ZN4ikos11wto_nestingI4TCFGEC2ERKS2_(NEST *d, NEST *s){ *d = *s; }
void _ZN4ikos11wto_nestingI4TCFGED2Ev(NEST *d){ }
unsigned char _ZNK4ikos11wto_nestingI4TCFGEgtES2_(NEST *a, NEST *b){
  __CPROVER_assert((uint64_t)b->f0.f0.f0 == g_head, "predecessor nestings are compared with the nesting of the cycle head");
  return DEEPER((uint64_t)a->f0.f0.f0, (uint64_t)b->f0.f0.f0); }
void _ZNSt16_Sp_counted_baseILN9__gnu_cxx12_Lock_policyE2EE15_M_add_ref_copyEv(void *p){ }
void _ZNSt16_Sp_counted_baseILN9__gnu_cxx12_Lock_policyE2EE10_M_releaseEv(void *p){ }
/* ---- the CFG: predecessors of the head are the scenario's array */
struct anon_dea29fadec _ZNK4TCFG10prev_nodesEm(TCFG *cfg, uint64_t n){
  struct anon_dea29fadec r;
  if (g_has_body && n == g_body && n != g_head) { r.f0 = g_bp; r.f1 = g_bp + g_nbp; return r; }
  __CPROVER_assert(n == g_head, "predecessors are asked of the blocks being visited only");
  r.f0 = g_preds; r.f1 = g_preds + g_np; return r; }
/* ---- ASSUMED: std::unordered_map<label,GV>::find (assumption map) is lookup in the finite map { g_akey -> *g_anode } */
ANODE *_ZNKSt13unordered_mapIm2GVSt4hashImESt8equal_toImESaISt4pairIKmS0_EEE4findERS6_(AMAP *m, uint64_t *key){
  return (*key == g_akey) ? g_anode : (ANODE *)0; }
/* ---- statistics: effect-free; logging: unreachable at verbosity 0 */
void _ZN4crab9CrabStats5countERKNSt7__cxx1112basic_stringIcSt11char_traitsIcESaIcEEE(void *name){}
void _ZN4crab9CrabStats6resumeERKNSt7__cxx1112basic_stringIcSt11char_traitsIcESaIcEEE(void *name){}
void _ZN4crab9CrabStats4stopERKNSt7__cxx1112basic_stringIcSt11char_traitsIcESaIcEEE(void *name){}
void _ZN4crab15ScopedCrabStatsC1ERKNSt7__cxx1112basic_stringIcSt11char_traitsIcESaIcEEEb(void *self, void *name, unsigned char reset){}
void _ZN4crab15ScopedCrabStatsD1Ev(void *self){}
void _ZNSaIcEC1Ev(void *self){}
void _ZNSaIcED1Ev(void *self){}
void _ZNSt7__cxx1112basic_stringIcSt11char_traitsIcESaIcEEC1EPKcRKS3_(void *self, const char *s, void *a){}
void _ZNSt7__cxx1112basic_stringIcSt11char_traitsIcESaIcEED1Ev(void *self){}
void *_ZN4crab14get_msg_streamEb(unsigned char ts){ __CPROVER_assume(0); return 0; }
#define UNREACHABLE_STUB(msg) { __CPROVER_assert(0, msg); __CPROVER_assume(0); }
void *_ZlsRN4crab7crab_osERK2GV(void *o, GV *v){ UNREACHABLE_STUB("only logging prints abstract values"); return o; }
void _ZN4crab18basic_block_traitsI3TBBE9to_stringB5cxx11ERKm(void *ret, uint64_t *l){ UNREACHABLE_STUB("only logging / CRAB_ERROR print block labels"); }
unsigned char _ZNK4TCFG13has_func_declEv(void *cfg){ UNREACHABLE_STUB("only logging asks for the function name"); return 0; }
void *_ZNK4TCFG13get_func_declEv(void *cfg){ UNREACHABLE_STUB("only logging asks for the function name"); return 0; }
void _ZNK3TFD13get_func_nameB5cxx11Ev(void *ret, void *fd){ UNREACHABLE_STUB("only logging asks for the function name"); }
void *_ZNK4TCFG8get_nodeEm(void *cfg, uint64_t l){ UNREACHABLE_STUB("only logging asks for the block"); return 0; }
uint64_t _ZNK3TBB4sizeEv(void *b){ UNREACHABLE_STUB("only logging asks for the block size"); return 0; }
