/* Contracts for wto_iterator<TCFG,GV>::visit(wto_cycle_t&) -- properties C05 ("widening applied at every WTO cycle head
 * once iteration > widening_delay; loop exits only when new_pre <= pre") and C06 ("no extrapolation while a loop head
 * has been iterated at most widening_delay times"; "only back edges into the head with deeper nesting are excluded
 * from the initial join"; strengthening with assumptions).  See spec.h for the ghost monitor and unit.json for what
 * is assumed.  BOUNDED: see the bounded= key (loops of the real function are unwound, not closed by invariants). */
#include "spec.h"
#define VISIT_CYCLE _ZN4ikos38interleaved_fwd_fixpoint_iterator_impl12wto_iteratorI4TCFG2GVE5visitERNS_9wto_cycleIS2_EE
extern const struct anon_f0db2cc371 _ZTVN4ikos9wto_cycleI4TCFGEE;
extern const struct anon_f0db2cc371 _ZTVN4ikos10wto_vertexI4TCFGEE;
extern const struct anon_f0db2cc371 _ZTVN4ikos38interleaved_fwd_fixpoint_iterator_impl12wto_iteratorI4TCFG2GVEE;
/* the assumption map binds g_akey to *g_anode (or nothing); strengthening applies iff the map is present and non-empty */
#define ASSUME_ON(self) ((self)->f4 != 0 && AMAP_COUNT((self)->f4) != 0)
#define INIT_PRE(self) ((ASSUME_ON(self) && g_akey == g_head && g_anode != 0) ? MEET(fold_init(), ANODE_PAIR(g_anode)->f1.f0) : fold_init())
#define MONITOR_ZERO (g_body_cp == 0 && g_body_pre_set == 0 && g_epoch == 0 && g_phase == 0 && g_ext_n == 0 && g_ref_n == 0 && g_leq_n == 0 && g_cp_n == 0 && g_setpre_n == 0 && g_pre_tab_set == 0)

static IT h_it; static PARAMS h_params; static GV h_fac; static SLIST h_lst; static AMAP h_amap; static ANODE h_anode;
static SNODE h_snode; static VTX h_body;
//@check id=visit_cycle fn=_ZN4ikos38interleaved_fwd_fixpoint_iterator_impl12wto_iteratorI4TCFG2GVE5visitERNS_9wto_cycleIS2_EE props=C05,C06 rec=1 unwind=5 vary=SKIP:0-1 cost=9 bounded="cycle with an empty body (self loop), at most 2 predecessors of the head, ascending sequence stabilising within 3 passes, descending_iterations <= 2" timeout=1500 first_timeout=900
//@check id=visit_cycle_body fn=_ZN4ikos38interleaved_fwd_fixpoint_iterator_impl12wto_iteratorI4TCFG2GVE5visitERNS_9wto_cycleIS2_EE tag=visit_cycle harness=h_visit_cycle props=C05,C06 rec=1 unwind=5 defs=BODY=1,SKIP=0 tier=thorough backends=cvc5,minisat cost=9 mem=12 bounded="cycle whose body is ONE vertex with at most one predecessor, at most 2 predecessors of the head, ascending sequence stabilising within 3 passes, descending_iterations <= 2, start block outside the cycle" timeout=3000 first_timeout=2400
/* SKIP (one run per value): m_skip on entry.  While skipping, a cycle that does not contain the requested entry block is
 * left untouched; a cycle that contains it (here: whose head it is) is analysed from the STORED pre-invariant of the
 * entry instead of the join of the predecessors, and the skipping ends. */
#ifndef SKIP
#define SKIP 0
#endif
#define SKIPPED(self) (SKIP == 1 && (self)->f2 != g_head)
#define INIT_BASE(self) (SKIP == 1 ? PRE0(g_head) : fold_init())
#undef INIT_PRE
#define INIT_PRE(self) ((ASSUME_ON(self) && g_akey == g_head && g_anode != 0) ? MEET(INIT_BASE(self), ANODE_PAIR(g_anode)->f1.f0) : INIT_BASE(self))
void VISIT_CYCLE(WI *self, CYC *cycle)
__CPROVER_requires(VERBOSITY == 0 && MONITOR_ZERO && g_mode == 0)
__CPROVER_requires(self->f5 == SKIP)
__CPROVER_requires(cycle->f1 == g_head && g_np <= NPMAX && DESC_ITERS(self) < KMAX)
#ifdef BODY
/* BODY: the cycle has exactly one nested component, a vertex g_body (not the head, not the start block) with at most one
 * predecessor; it is reached through the REAL boost slist / shared_ptr / v-table of wto_vertex and visited by the REAL
 * visit(wto_vertex_t&) through the REAL v-table of the iterator */
__CPROVER_requires(g_has_body == 1 && g_body != g_head && self->f2 != g_body && g_nbp <= 1 && h_body.f1 == g_body)
__CPROVER_requires(cycle->f2.f0.f0 == &h_lst && SLIST_ROOT(&h_lst).f0 == &h_snode.f0.f0.f0 && h_snode.f0.f0.f0.f0 == &SLIST_ROOT(&h_lst) && h_snode.f1.f0.f0.f0 == (void *)&h_body)
#else
__CPROVER_requires(g_has_body == 0)
__CPROVER_requires(cycle->f2.f0.f0 != 0 && SLIST_ROOT(cycle->f2.f0.f0).f0 == &SLIST_ROOT(cycle->f2.f0.f0))
#endif
__CPROVER_requires(self->f4 == 0 || (g_anode == 0 || (AMAP_COUNT(self->f4) != 0 && ANODE_PAIR(g_anode)->f0 == g_akey)))
__CPROVER_assigns(cycle->f3, self->f5, g_epoch, g_phase, g_ext_n, g_ref_n, g_leq_n, g_cp_n, g_setpre_n, g_cur, g_first, g_pre_tab, g_fix, g_last_ref, g_leq_a, g_leq_b, g_pre_tab_set, g_leq_r, g_body_cp, g_body_pre, g_body_pre_set)
/* every pass over the head includes one pass over the components of the cycle */
__CPROVER_ensures((!SKIPPED(self) && g_has_body) ==> g_body_cp == g_cp_n)
/* C06: a skipped cycle is left untouched and the skipping goes on */
__CPROVER_ensures(SKIPPED(self) ==> (self->f5 == 1 && g_cp_n == 0 && g_setpre_n == 0 && g_leq_n == 0 && cycle->f3 == __CPROVER_old(cycle->f3)))
__CPROVER_ensures(!SKIPPED(self) ==> self->f5 == 0)
/* C05: the ascending loop is left only after `new_pre <= pre` answered yes */
__CPROVER_ensures(!SKIPPED(self) ==> (g_phase >= 1 && g_leq_n >= 1))
/* C06: the first pass starts from the join of the posts of the predecessors that are NOT nested deeper than the head
 * (back edges excluded, every other edge included) -- or from the entry's stored value -- strengthened by the head's
 * assumption if there is one */
__CPROVER_ensures(!SKIPPED(self) ==> g_first == INIT_PRE(self))
/* every pass over the head is followed by exactly one inclusion test; passes in the ascending phase = extrapolations + 1 */
__CPROVER_ensures(!SKIPPED(self) ==> (g_leq_n == g_cp_n && g_cp_n >= g_ext_n + 1))
__CPROVER_ensures(!SKIPPED(self) ==> cycle->f3 == __CPROVER_old(cycle->f3) + g_ext_n + 1)
/* the head's stored pre-invariant at the end is the post-fixpoint, or the last refinement of it */
__CPROVER_ensures(!SKIPPED(self) ==> (g_pre_tab_set && g_pre_tab == (g_ref_n == 0 ? g_fix : g_last_ref)))
__CPROVER_ensures((!SKIPPED(self) && DESC_ITERS(self) == 0) ==> (g_ref_n == 0 && g_phase == 1 && g_cp_n == g_ext_n + 1))
__CPROVER_ensures(g_ref_n <= DESC_ITERS(self));

void h_visit_cycle(void){
  VERBOSITY = 0;
  IN(PARAMS, params); h_params = params; h_it.f4 = &h_params;
  WI wi; CYC cyc;
  GHOST(uint64_t, head); GHOST(uint64_t, np); GHOST(uint64_t, p0); GHOST(uint64_t, p1); GHOST(uint64_t, entry); GHOST(uint32_t, nfix);
  GHOST(uint8_t, amode); GHOST(uint64_t, akey); GHOST(uint64_t, aval); GHOST(uint64_t, acount);
  g_head = head; g_np = np; g_preds[0] = p0; g_preds[1] = p1;
  wi.f1 = &h_it; wi.f2 = entry; wi.f3 = &h_fac; wi.f5 = SKIP;
  /* assumptions: none / a map that binds nothing for the key asked / a map that binds the key */
  if (amode == 0) { wi.f4 = 0; g_anode = 0; }
  else { AMAP_COUNT(&h_amap) = acount; wi.f4 = &h_amap; g_akey = akey;
         if (amode == 1) g_anode = 0; else { ANODE_PAIR(&h_anode)->f0 = akey; ANODE_PAIR(&h_anode)->f1.f0 = aval; g_anode = &h_anode; } }
#ifdef BODY
  GHOST(uint64_t, body); GHOST(uint64_t, nbp); GHOST(uint64_t, bp0);
  g_has_body = 1; g_body = body; g_nbp = nbp; g_bp[0] = bp0;
  h_body.f0.f0 = (void *)&_ZTVN4ikos10wto_vertexI4TCFGEE.f0.a[2]; h_body.f1 = body;
  h_snode.f1.f0.f0.f0 = (void *)&h_body; h_snode.f1.f0.f0.f1.f0 = 0;
  h_snode.f0.f0.f0.f0 = &SLIST_ROOT(&h_lst); SLIST_ROOT(&h_lst).f0 = &h_snode.f0.f0.f0; SLIST_SIZE(&h_lst) = 1;
  wi.f0.f0 = (void *)&_ZTVN4ikos38interleaved_fwd_fixpoint_iterator_impl12wto_iteratorI4TCFG2GVEE.f0.a[2];
#else
  g_has_body = 0;
  SLIST_ROOT(&h_lst).f0 = &SLIST_ROOT(&h_lst); SLIST_SIZE(&h_lst) = 0;
#endif
  cyc.f0.f0 = (void *)&_ZTVN4ikos9wto_cycleI4TCFGEE.f0.a[2];
  cyc.f1 = head; cyc.f2.f0.f0 = &h_lst; cyc.f2.f0.f1.f0 = 0; cyc.f3 = nfix;
  g_body_cp = 0; g_body_pre_set = 0; g_mode = 0; g_epoch = 0; g_phase = 0; g_ext_n = 0; g_ref_n = 0; g_leq_n = 0; g_cp_n = 0; g_setpre_n = 0; g_pre_tab_set = 0;
  VISIT_CYCLE(&wi, &cyc);
  REACH; }

/* ===================== visit(wto_vertex_t&) =====================
 * C06: "skipping of components until the requested entry block is met; strengthening with assumptions".
 *  - while skipping (m_skip) a vertex other than the entry is left untouched (nothing stored, nothing analysed);
 *    meeting the entry ends the skipping for good;
 *  - the entry is analysed from its STORED pre-invariant (the initial value), strengthened by its assumption if any;
 *  - any other vertex is analysed from the join of the current posts of ALL its predecessors (from bottom), strengthened
 *    by its assumption if any, and that value is stored as its pre-invariant;
 *  - the block is analysed exactly once. */
#define VISIT_VERTEX _ZN4ikos38interleaved_fwd_fixpoint_iterator_impl12wto_iteratorI4TCFG2GVE5visitERNS_10wto_vertexIS2_EE
#define A_ON(self) ((self)->f4 != 0 && AMAP_COUNT((self)->f4) != 0)
#define A_HIT(self) (A_ON(self) && g_akey == g_head && g_anode != 0)
#define V_BASE(self) (g_head == (self)->f2 ? PRE0(g_head) : fold_all(0))
#define V_PRE(self) (A_HIT(self) ? MEET(V_BASE(self), ANODE_PAIR(g_anode)->f1.f0) : V_BASE(self))
//@check id=visit_vertex fn=_ZN4ikos38interleaved_fwd_fixpoint_iterator_impl12wto_iteratorI4TCFG2GVE5visitERNS_10wto_vertexIS2_EE props=C06 unwind=4 bounded="at most 2 predecessors of the block (the loop over the predecessors is unwound)"
void VISIT_VERTEX(WI *self, VTX *vertex)
__CPROVER_requires(VERBOSITY == 0 && MONITOR_ZERO && g_mode == 1 && g_has_body == 0)
__CPROVER_requires(self->f5 <= 1 && vertex->f1 == g_head && g_np <= NPMAX)
__CPROVER_requires(self->f4 == 0 || (g_anode == 0 || (AMAP_COUNT(self->f4) != 0 && ANODE_PAIR(g_anode)->f0 == g_akey)))
__CPROVER_assigns(self->f5, g_epoch, g_phase, g_ext_n, g_ref_n, g_leq_n, g_cp_n, g_setpre_n, g_cur, g_first, g_pre_tab, g_fix, g_last_ref, g_leq_a, g_leq_b, g_pre_tab_set, g_leq_r, g_body_cp, g_body_pre, g_body_pre_set)
/* skipping */
__CPROVER_ensures((__CPROVER_old(self->f5) == 1 && g_head != self->f2) ==> (self->f5 == 1 && g_cp_n == 0 && g_setpre_n == 0))
__CPROVER_ensures((__CPROVER_old(self->f5) == 0 || g_head == self->f2) ==> (self->f5 == 0 && g_cp_n == 1 && g_first == V_PRE(self)))
/* what is stored: every non-entry block gets its pre-invariant stored; the entry keeps its initial value unless strengthened */
__CPROVER_ensures(((__CPROVER_old(self->f5) == 0 || g_head == self->f2) && (g_head != self->f2 || A_ON(self))) ==> (g_pre_tab_set && g_pre_tab == V_PRE(self)))
__CPROVER_ensures(g_leq_n == 0 && g_ext_n == 0 && g_ref_n == 0);
void h_visit_vertex(void){
  VERBOSITY = 0;
  IN(PARAMS, params); h_params = params; h_it.f4 = &h_params;
  WI wi; VTX vtx;
  GHOST(uint64_t, head); GHOST(uint64_t, np); GHOST(uint64_t, p0); GHOST(uint64_t, p1); GHOST(uint64_t, entry); GHOST(uint8_t, skip);
  GHOST(uint8_t, amode); GHOST(uint64_t, akey); GHOST(uint64_t, aval); GHOST(uint64_t, acount);
  g_head = head; g_np = np; g_preds[0] = p0; g_preds[1] = p1;
  wi.f1 = &h_it; wi.f2 = entry; wi.f3 = &h_fac; wi.f5 = skip;
  if (amode == 0) { wi.f4 = 0; g_anode = 0; }
  else { AMAP_COUNT(&h_amap) = acount; wi.f4 = &h_amap; g_akey = akey;
         if (amode == 1) g_anode = 0; else { ANODE_PAIR(&h_anode)->f0 = akey; ANODE_PAIR(&h_anode)->f1.f0 = aval; g_anode = &h_anode; } }
  vtx.f1 = head;
  g_has_body = 0; g_body_cp = 0; g_body_pre_set = 0; g_mode = 1; g_epoch = 0; g_phase = 0; g_ext_n = 0; g_ref_n = 0; g_leq_n = 0; g_cp_n = 0; g_setpre_n = 0; g_pre_tab_set = 0;
  VISIT_VERTEX(&wi, &vtx);
  REACH; }
