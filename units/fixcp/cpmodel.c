/* Models for unit fixcp: the block transformer of the concrete subclass (uninterpreted), set_post as a recording model. */
#include "spec.h"
IT *g_it; uint32_t g_analyze_n, g_setpost_n; uint64_t g_post_node, g_post_val, g_an_node, g_an_in;
uint32_t _ZN4crab13CrabVerbosityE = 0;
/* MYIT::analyze(const label&, GV&&): the block transformer, an arbitrary function of (block, pre-invariant) */
uint64_t _ZN4MYIT7analyzeERKmO2GV(IT *it, uint64_t *node, GV *pre){
  __CPROVER_assert(it == g_it, "analyze is called on the iterator the visitor belongs to");
  g_analyze_n++; g_an_node = *node; g_an_in = pre->f0; return ANALYZE(*node, pre->f0); }
void _ZN4MYIT11process_preERKm2GV(IT *it, uint64_t *node, uint64_t inv){ __CPROVER_assert(0, "process_pre is not called by compute_post"); }
void _ZN4MYIT12process_postERKm2GV(IT *it, uint64_t *node, uint64_t inv){ __CPROVER_assert(0, "process_post is not called by compute_post"); }
void _ZN4ikos33interleaved_fwd_fixpoint_iteratorI4TCFG2GVE8set_postEmOS2_(IT *it, uint64_t node, GV *v){
  __CPROVER_assert(it == g_it, "the post-invariant is stored in the iterator the visitor belongs to");
  g_setpost_n++; g_post_node = node; g_post_val = v->f0; }
void _ZN4crab9CrabStats6resumeERKNSt7__cxx1112basic_stringIcSt11char_traitsIcESaIcEEE(void *name){}
void _ZN4crab9CrabStats4stopERKNSt7__cxx1112basic_stringIcSt11char_traitsIcESaIcEEE(void *name){}
void _ZN4crab9CrabStats5countERKNSt7__cxx1112basic_stringIcSt11char_traitsIcESaIcEEE(void *name){}
void _ZN4crab15ScopedCrabStatsC1ERKNSt7__cxx1112basic_stringIcSt11char_traitsIcESaIcEEEb(void *self, void *name, unsigned char reset){}
void _ZN4crab15ScopedCrabStatsD1Ev(void *self){}
void _ZNSaIcEC1Ev(void *self){}
void _ZNSaIcED1Ev(void *self){}
void _ZNSt7__cxx1112basic_stringIcSt11char_traitsIcESaIcEEC1EPKcRKS3_(void *self, const char *s, void *a){}
void _ZNSt7__cxx1112basic_stringIcSt11char_traitsIcESaIcEED1Ev(void *self){}
void *_ZN4crab14get_msg_streamEb(unsigned char ts){ __CPROVER_assume(0); return 0; }
#define UNREACHABLE_STUB(msg) { __CPROVER_assert(0, msg); __CPROVER_assume(0); }
void *_ZlsRN4crab7crab_osERK2GV(void *o, GV *v){ UNREACHABLE_STUB("only logging prints abstract values"); return o; }
void _ZN4crab18basic_block_traitsI3TBBE9to_stringB5cxx11ERKm(void *ret, uint64_t *l){ UNREACHABLE_STUB("only logging prints block labels"); }
unsigned char _ZNK4TCFG13has_func_declEv(void *cfg){ UNREACHABLE_STUB("only logging asks for the function name"); return 0; }
void *_ZNK4TCFG13get_func_declEv(void *cfg){ UNREACHABLE_STUB("only logging asks for the function name"); return 0; }
void _ZNK3TFD13get_func_nameB5cxx11Ev(void *ret, void *fd){ UNREACHABLE_STUB("only logging asks for the function name"); }
void *_ZNK4TCFG8get_nodeEm(void *cfg, uint64_t l){ UNREACHABLE_STUB("only logging asks for the block"); return 0; }
uint64_t _ZNK3TBB4sizeEv(void *b){ UNREACHABLE_STUB("only logging asks for the block size"); return 0; }
