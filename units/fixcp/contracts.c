/* Contract for wto_iterator<TCFG,GV>::compute_post(node, inv) -- C06 / C05: "driven with ... a block transformer", the engine
 * applies the transformer of the block to the value it was given and stores exactly the result as the block's
 * post-invariant (unit fixvisit assumes this of compute_post). */
#include "spec.h"
#define COMPUTE_POST _ZN4ikos38interleaved_fwd_fixpoint_iterator_impl12wto_iteratorI4TCFG2GVE12compute_postEmS3_
extern const struct anon_a81e9b8d92 _ZTV4MYIT;
//@check id=compute_post fn=_ZN4ikos38interleaved_fwd_fixpoint_iterator_impl12wto_iteratorI4TCFG2GVE12compute_postEmS3_ props=C06,C05
void COMPUTE_POST(WI *self, uint64_t node, uint64_t inv)
__CPROVER_requires(FRESH(compute_post, self, sizeof(WI)) && self->f1 == g_it && VERBOSITY == 0 && g_analyze_n == 0 && g_setpost_n == 0)
__CPROVER_assigns(g_analyze_n, g_setpost_n, g_post_node, g_post_val, g_an_node, g_an_in)
__CPROVER_ensures(g_analyze_n == 1 && g_an_node == node && g_an_in == inv)
__CPROVER_ensures(g_setpost_n == 1 && g_post_node == node && g_post_val == ANALYZE(node, inv));
static struct S_struct_MYIT h_it; static GV h_fac;
void h_compute_post(void){
  VERBOSITY = 0; WI wi; GHOST(uint64_t, node); GHOST(uint64_t, inv); GHOST(uint64_t, entry);
  *(void **)&h_it = (void *)&_ZTV4MYIT.f0.a[2];
  g_it = (IT *)&h_it; wi.f1 = g_it; wi.f2 = entry; wi.f3 = &h_fac; wi.f4 = 0; wi.f5 = 0;
  g_analyze_n = 0; g_setpost_n = 0;
  COMPUTE_POST(&wi, node, inv); REACH; }
