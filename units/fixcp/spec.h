#ifndef FIXCP_SPEC_H
#define FIXCP_SPEC_H
#include "verif.h"
#ifndef __cplusplus
#include "unit_types.h"
typedef struct S_class_ikos__interleaved_fwd_fixpoint_iterator IT;
typedef struct S_class_ikos__interleaved_fwd_fixpoint_iterator_impl__wto_iterator WI;
typedef struct S_struct_GV GV;
uint64_t __CPROVER_uninterpreted_cp_analyze(uint64_t, uint64_t);
#define ANALYZE(n, v) __CPROVER_uninterpreted_cp_analyze(n, v)
extern IT *g_it; extern uint32_t g_analyze_n, g_setpost_n; extern uint64_t g_post_node, g_post_val, g_an_node, g_an_in;
extern uint32_t _ZN4crab13CrabVerbosityE;
#define VERBOSITY _ZN4crab13CrabVerbosityE
#endif
#endif
