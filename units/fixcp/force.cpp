// Forcing TU for wto_iterator::compute_post (analyse a block and store its post-invariant); a concrete iterator subclass MYIT
// with DECLARED-only analyze / process_* gives the virtual call a real v-table (its destructor is the key function).
// Rest as units/fixrun: entry points of the fixpoint engine, interleaved_fwd_fixpoint_iterator<CFG,AbsDom>::run(init) and
// run(entry, init, assumptions) with initialize_invariant_tables() (same minimal CFG / ghost value as units/fixvisit):
// ikos::interleaved_fwd_fixpoint_iterator_impl::wto_iterator<CFG,AbsDom>::visit(wto_cycle_t&) and ::visit(wto_vertex_t&)
// (include/crab/fixpoint/interleaved_fixpoint_iterator.hpp).  No logic of its own:
//  * TCFG: a minimal CFG type (label = unsigned long, number = z_number): typedefs and DECLARATIONS only; the
//    predecessor range PREDS is a pair of pointers (begin()/end() return them);
//  * GV: an opaque GHOST abstract value (a handle); every lattice operation is only DECLARED;
//  * the two visit members are instantiated by taking their addresses; the real wto_cycle / wto_vertex /
//    wto_nesting / member_component_visitor classes come from the real headers.
#include <crab/fixpoint/interleaved_fixpoint_iterator.hpp>
struct TFD { std::string get_func_name() const; };
struct TBB { using basic_block_label_t = unsigned long; unsigned long size() const; };
struct TVAR;
struct PREDS {
  const unsigned long *b, *e;
  const unsigned long *begin() const { return b; }
  const unsigned long *end() const { return e; }
};
struct TCFG {
  using basic_block_label_t = unsigned long;
  using basic_block_t = TBB;
  using number_t = ikos::z_number;
  using varname_t = long;
  using variable_t = TVAR;
  long id;
  bool has_func_decl() const;
  const TFD &get_func_decl() const;
  unsigned long entry() const;
  PREDS prev_nodes(unsigned long) const;
  TBB &get_node(unsigned long) const;
  const unsigned long *label_begin() const;
  const unsigned long *label_end() const;
};
namespace boost {
template <> struct graph_traits<TCFG> {
  using vertex_descriptor = unsigned long;
  using edge_descriptor = std::pair<unsigned long, unsigned long>;
  using out_edge_iterator = const edge_descriptor *;
};
} // namespace boost
struct GV { // ghost abstract value: an opaque handle, every operation external
  long id;
  GV make_top() const;
  GV make_bottom() const;
  bool is_top() const;
  bool is_bottom() const;
  GV operator|(const GV &) const;
  void operator|=(const GV &);
  GV operator&(const GV &) const;
  GV operator||(const GV &) const;
  GV operator&&(const GV &) const;
  GV widening_thresholds(const GV &, const crab::thresholds<ikos::z_number> &) const;
  bool operator<=(const GV &) const;
  void write(crab::crab_os &o) const;
};
crab::crab_os &operator<<(crab::crab_os &o, const GV &v);
typedef ikos::interleaved_fwd_fixpoint_iterator<TCFG, GV> IT;
typedef ikos::interleaved_fwd_fixpoint_iterator_impl::wto_iterator<TCFG, GV> WI;
template class ikos::wto_cycle<TCFG>;
template class ikos::wto_vertex<TCFG>;
template class ikos::interleaved_fwd_fixpoint_iterator_impl::wto_iterator<TCFG, GV>;
template void ikos::interleaved_fwd_fixpoint_iterator<TCFG, GV>::run(GV);
template void ikos::interleaved_fwd_fixpoint_iterator<TCFG, GV>::run(unsigned long, GV, const std::unordered_map<unsigned long, GV> &);
struct MYIT : public IT {
  virtual ~MYIT();
  GV analyze(const unsigned long &node, GV &&pre) override;
  void process_pre(const unsigned long &node, GV inv) override;
  void process_post(const unsigned long &node, GV inv) override;
};
MYIT::~MYIT() {}
extern "C" {
void fv_compute_post(WI *self, unsigned long node, GV *inv) { self->compute_post(node, *inv); }
void fv_visit_cycle(WI *self, ikos::wto_cycle<TCFG> *c) { self->WI::visit(*c); }
void fv_visit_vertex(WI *self, ikos::wto_vertex<TCFG> *v) { self->WI::visit(*v); }
}
