/* Trusted model of ikos::z_number for code ABOVE the big-number wrapper (DESIGN 2.4a).
 * The 16-byte __mpz_struct is overridden (unit.json "override") to { i64 lo, i64 hi }: a signed 128-bit
 * machine integer.  Linear operations are exact and carry an overflow obligation ("z model range");
 * `*`, `/`, `%` are the mathematical operations: bit-precise when ZM_PRECISE is defined, otherwise
 * uninterpreted symbols ZM_mul/ZM_div/ZM_rem constrained by unit/zero/sign axioms (lemma instances are
 * supplied by the contracts that need them; every schema is discharged over Int in lemmas/).
 * lib/bignums.cpp itself is verified against a GMP model under C20; the two layers are never mixed. */
#ifndef ZMODEL_H
#define ZMODEL_H
#include "verif.h"
struct S_class_ikos__z_number;
typedef struct S_class_ikos__z_number Z;
#ifndef __cplusplus
#define ZLO(p) ((p)->f0.a.f0)
#define ZHI(p) ((p)->f0.a.f1)
static inline i128 ZV(const Z *p){ return (i128)(((u128)ZHI(p) << 64) | (u128)ZLO(p)); }
static inline void ZSET(Z *p, i128 v){ ZLO(p) = (uint64_t)(u128)v; ZHI(p) = (uint64_t)((u128)v >> 64); }
#define ZLIM (((i128)1) << 100)
static inline bool z_inrange(i128 v){ return v > -ZLIM && v < ZLIM; }
i128 ZM_mul(i128 a, i128 b);
i128 ZM_div(i128 a, i128 b);
i128 ZM_rem(i128 a, i128 b);
/* the same mathematical functions as side-effect-free TERMS for postconditions and lemma instances: the very
 * uninterpreted application that ZM_x(a,b) returns (macros, not functions: a function shared between contract
 * clauses and instrumented code confuses dfcc).  Facts about them come only from lemma instances. */
#if defined(ZM_SMALL)
#include "zsmall.h"
#define ZM_mul_pure(a, b) zs_mul_pure((i128)(a), (i128)(b))
#define ZM_div_pure(a, b) zs_div_pure((i128)(a), (i128)(b))
#define ZM_rem_pure(a, b) zs_rem_pure((i128)(a), (i128)(b))
#elif defined(ZM_PRECISE)
#define ZM_mul_pure(a, b) ((i128)(a) * (i128)(b))
#define ZM_div_pure(a, b) ((i128)(a) / (i128)(b))
#define ZM_rem_pure(a, b) ((i128)(a) % (i128)(b))
#else
i128 __CPROVER_uninterpreted_zmul(i128, i128);
i128 __CPROVER_uninterpreted_zdiv(i128, i128);
i128 __CPROVER_uninterpreted_zrem(i128, i128);
#define ZM_mul_pure(a, b) __CPROVER_uninterpreted_zmul((i128)(a), (i128)(b))
#define ZM_div_pure(a, b) __CPROVER_uninterpreted_zdiv((i128)(a), (i128)(b))
#define ZM_rem_pure(a, b) __CPROVER_uninterpreted_zrem((i128)(a), (i128)(b))
#endif
#endif
#endif
