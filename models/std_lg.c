/* std::__lg(long n) of libstdc++ (bits/stl_algobase.h): floor(log2(n)) for n >= 1, there computed as
 * sizeof(long) * 8 - 1 - __builtin_clzl(n).  tools/ll2c.py does not translate the llvm.ctlz intrinsic (the function is
 * listed under `skipped` in info.json), so the body is supplied here, loop free.  std::sort uses it only for the
 * recursion budget of introsort (2 * lg(n)). */
#include <stdint.h>
uint64_t _ZSt4__lgl(uint64_t n){
  __CPROVER_assert((int64_t)n >= 1, "std::__lg: argument is positive (__builtin_clzl(0) is undefined)");
  uint64_t v = n, r = 0;
  if (v >> 32) { v >>= 32; r += 32; }
  if (v >> 16) { v >>= 16; r += 16; }
  if (v >> 8) { v >>= 8; r += 8; }
  if (v >> 4) { v >>= 4; r += 4; }
  if (v >> 2) { v >>= 2; r += 2; }
  if (v >> 1) { r += 1; }
  return r; }
