/* crab::wrapint AS ITS CONTRACTS, for units above wrapint (wrapped_interval).
 *
 * Every function below is the contract of units/wrapint/wrapint_contracts.h applied by hand:
 *     assert(precondition);  result := THE value the postcondition pins down
 * (every postcondition there has the form w_is(result, width, value): it determines all three fields), in the
 * vocabulary of units/wrapint/spec.h in which unit wrapint PROVES these contracts of lib/wrapint.cpp under C13.  This is exactly what
 * `goto-instrument --replace-call-with-contract` does, minus the dynamic-frames bookkeeping (is_fresh maps and
 * write-set objects for every call), which for wrapped_interval makes each call cost ~20 objects and the formula
 * of operator+ 2.1M variables (measured); with this file the same obligations need a fraction of that.
 * Pointer validity of the arguments is still checked (every access below is a checked dereference), aliasing of
 * `ret` with an argument is harmless because the result is computed before it is stored.
 * A violated precondition is an obligation "<fn> precondition" of the CALLER.
 * Widths are never fixed here (FIXW is not used): wrapped_interval mixes widths (top() has width 3, bottom() 1,
 * ZExt/SExt/Trunc change the width). */
#include "unit_types.h"
#include "../units/wrapint/spec.h"
#include "zmodel.h"
#define PRE(c, what) __CPROVER_assert(c, what " precondition (contract of units/wrapint)")
#include "wrapint_contracts_model.h"
#define BIN(fn, what, EXTRA, VAL) \
void fn(W *ret, W *self, W *x){ uint64_t w = WD(self), m = msk(w), a = N(self), b = N(x); \
  PRE(w_okm(*self, m) && w_okm(*x, m) && WD(x) == w && (EXTRA), what); *ret = mk(w, m, VAL); }
#define CMP(fn, what, OP) \
unsigned char fn(W *self, W *x){ uint64_t m = msk(WD(self)); PRE(w_okm(*self, m) && w_okm(*x, m) && WD(x) == WD(self), what); return N(self) OP N(x); }
#define STATICW(fn, what, VAL) \
void fn(W *ret, uint64_t w){ PRE(w >= 1 && w <= 64, what); uint64_t m = msk(w); *ret = mk(w, m, VAL); }
#define P1(self, m) w_okm(*(self), m)

/* values as in POST_add, POST_sub, ... of units/wrapint/spec.h (mask form) */
BIN(_ZNK4crab7wrapintplES0_, "wrapint::operator+", 1, (a + b) & m)
BIN(_ZNK4crab7wrapintmiES0_, "wrapint::operator-", 1, (a - b) & m)
BIN(_ZNK4crab7wrapintmlES0_, "wrapint::operator*", 1, (a * b) & m)
BIN(_ZNK4crab7wrapint4udivES0_, "wrapint::udiv", b != 0, (a / (b == 0 ? 1 : b)) & m)
BIN(_ZNK4crab7wrapint4sdivES0_, "wrapint::sdiv", b != 0, wrapz(ZM_div(sxv(a, w), sxv(b == 0 ? 1 : b, w)), w))
BIN(_ZNK4crab7wrapintlsES0_, "wrapint::operator<<", b < w, (a << (b & 63)) & m)
BIN(_ZNK4crab7wrapint4lshrES0_, "wrapint::lshr", b < w, a >> (b & 63))
BIN(_ZNK4crab7wrapint4ashrES0_, "wrapint::ashr", b < w, wrapz(fshr(sxv(a, w), b & 63), w))
CMP(_ZNK4crab7wrapinteqES0_, "wrapint::operator==", ==)
CMP(_ZNK4crab7wrapintltES0_, "wrapint::operator<", <)
CMP(_ZNK4crab7wrapintleES0_, "wrapint::operator<=", <=)
CMP(_ZNK4crab7wrapintgeES0_, "wrapint::operator>=", >=)
void _ZNK4crab7wrapintngEv(W *ret, W *self){ uint64_t w = WD(self), m = msk(w); PRE(P1(self, m), "wrapint::operator- (unary)"); *ret = mk(w, m, ((uint64_t)0 - N(self)) & m); }
W *_ZN4crab7wrapintppEv(W *self){ uint64_t w = WD(self), m = msk(w); PRE(P1(self, m), "wrapint::operator++"); *self = mk(w, m, (N(self) + 1) & m); return self; }
W *_ZN4crab7wrapintmmEv(W *self){ uint64_t w = WD(self), m = msk(w); PRE(P1(self, m), "wrapint::operator--"); *self = mk(w, m, (N(self) - 1) & m); return self; }
void _ZNK4crab7wrapint4sextEm(W *ret, W *self, uint64_t bits){ uint64_t w = WD(self), m = msk(w); PRE(P1(self, m) && bits <= 64 && w + bits <= 64, "wrapint::sext");
  uint64_t w2 = w + bits, m2 = msk(w2); *ret = mk(w2, m2, wrapz(sxv(N(self), w), w2)); }
void _ZNK4crab7wrapint4zextEm(W *ret, W *self, uint64_t bits){ uint64_t w = WD(self), m = msk(w); PRE(P1(self, m) && bits <= 64 && w + bits <= 64, "wrapint::zext");
  uint64_t w2 = w + bits, m2 = msk(w2); *ret = mk(w2, m2, N(self)); }
void _ZNK4crab7wrapint10keep_lowerEm(W *ret, W *self, uint64_t bits){ uint64_t w = WD(self), m = msk(w); PRE(P1(self, m) && bits >= 1, "wrapint::keep_lower");
  if (bits >= w) { *ret = *self; return; } uint64_t m2 = msk(bits); *ret = mk(bits, m2, N(self) & m2); }
/* wrapint(uint64_t n, bitwidth_t w): the complete-object constructor C1 is an IR alias of C2 in lib/wrapint.cpp */
void _ZN4crab7wrapintC2Emm(W *self, uint64_t n, uint64_t w){ PRE(w >= 1 && w <= 64, "wrapint(n, width)"); uint64_t m = msk(w); *self = mk(w, m, n & m); }
void _ZN4crab7wrapintC1Emm(W *self, uint64_t n, uint64_t w){ _ZN4crab7wrapintC2Emm(self, n, w); }
void _ZN4crab7wrapintC2EN4ikos8z_numberEm(W *self, Z *n, uint64_t w){
  PRE(w >= 1 && w <= 64 && ZV(n) >= -((i128)1 << 63) && ZV(n) < ((i128)1 << 63), "wrapint(z_number, width)");
  uint64_t m = msk(w); *self = mk(w, m, wrapz(ZV(n), w)); }
void _ZN4crab7wrapintC1EN4ikos8z_numberEm(W *self, Z *n, uint64_t w){ _ZN4crab7wrapintC2EN4ikos8z_numberEm(self, n, w); }
STATICW(_ZN4crab7wrapint14get_signed_maxEm, "wrapint::get_signed_max", m >> 1)
STATICW(_ZN4crab7wrapint14get_signed_minEm, "wrapint::get_signed_min", (m >> 1) + 1)
STATICW(_ZN4crab7wrapint16get_unsigned_maxEm, "wrapint::get_unsigned_max", m)
STATICW(_ZN4crab7wrapint16get_unsigned_minEm, "wrapint::get_unsigned_min", 0)
unsigned char _ZNK4crab7wrapint3msbEv(W *self){ uint64_t m = msk(WD(self)); PRE(P1(self, m), "wrapint::msb"); return N(self) > (m >> 1); }
uint64_t _ZNK4crab7wrapint12get_uint64_tEv(W *self){ PRE(P1(self, msk(WD(self))), "wrapint::get_uint64_t"); return N(self); }
uint64_t _ZNK4crab7wrapint12get_bitwidthEv(W *self){ PRE(P1(self, msk(WD(self))), "wrapint::get_bitwidth"); return WD(self); }
void _ZNK4crab7wrapint19get_unsigned_bignumEv(Z *ret, W *self){ PRE(P1(self, msk(WD(self))), "wrapint::get_unsigned_bignum"); ZSET(ret, (i128)(u128)N(self)); }
void _ZNK4crab7wrapint17get_signed_bignumEv(Z *ret, W *self){ PRE(P1(self, msk(WD(self))), "wrapint::get_signed_bignum"); ZSET(ret, sxv(N(self), WD(self))); }
unsigned char _ZN4crab7wrapint12fits_wrapintEN4ikos8z_numberEm(Z *n, uint64_t w){ return w <= 64 && ZV(n) >= -((i128)1 << 63) && ZV(n) < ((i128)1 << 63); }
