/* crab::wrapint AS ITS CONTRACTS, for units above wrapint (wrapped_interval).
 *
 * Every function below is the contract of units/wrapint/wrapint_contracts.h applied by hand:
 *     assert(precondition);  result := arbitrary;  assume(postcondition);
 * with the precondition and the POST_* postcondition macros taken verbatim from units/wrapint/spec.h (the
 * vocabulary in which unit wrapint PROVES these contracts of lib/wrapint.cpp under C13).  This is exactly what
 * `goto-instrument --replace-call-with-contract` does, minus the dynamic-frames bookkeeping (is_fresh maps and
 * write-set objects for every call), which for wrapped_interval makes each call cost ~20 objects and the formula
 * of operator+ 2.1M variables (measured); with this file the same obligations need a fraction of that.
 * Pointer validity of the arguments is still checked (every access below is a checked dereference), aliasing of
 * `ret` with an argument is harmless because the result is computed before it is stored.
 * A violated precondition is an obligation "<fn> precondition" of the CALLER.
 * Widths are never fixed here (FIXW is not used): wrapped_interval mixes widths (top() has width 3, bottom() 1,
 * ZExt/SExt/Trunc change the width). */
#include "unit_types.h"
#include "../units/wrapint/spec.h"
#include "zmodel.h"
#define PRE(c, what) __CPROVER_assert(c, what " precondition (contract of units/wrapint)")
#define P2(self, x) (w_ok(*(self)) && w_ok(*(x)) && (self)->f1 == (x)->f1)
#define P1(self) (w_ok(*(self)))
#define BIN(fn, what, EXTRA, POST) \
void fn(W *ret, W *self, W *x){ PRE(P2(self, x) && (EXTRA), what); W r; __CPROVER_assume(POST(&r, self, x)); *ret = r; }
#define CMP(fn, what, OP) \
unsigned char fn(W *self, W *x){ PRE(P2(self, x), what); return N(self) OP N(x); }
#define STATICW(fn, what, POST) \
void fn(W *ret, uint64_t w){ PRE(w >= 1 && w <= 64, what); W r; __CPROVER_assume(POST(&r, w)); *ret = r; }

BIN(_ZNK4crab7wrapintplES0_, "wrapint::operator+", 1, POST_add)
BIN(_ZNK4crab7wrapintmiES0_, "wrapint::operator-", 1, POST_sub)
BIN(_ZNK4crab7wrapintmlES0_, "wrapint::operator*", 1, POST_mul)
BIN(_ZNK4crab7wrapint4udivES0_, "wrapint::udiv", N(x) != 0, POST_udiv)
BIN(_ZNK4crab7wrapint4sdivES0_, "wrapint::sdiv", N(x) != 0, POST_sdiv)
BIN(_ZNK4crab7wrapintlsES0_, "wrapint::operator<<", N(x) < WD(self), POST_shl)
BIN(_ZNK4crab7wrapint4lshrES0_, "wrapint::lshr", N(x) < WD(self), POST_lshr)
BIN(_ZNK4crab7wrapint4ashrES0_, "wrapint::ashr", N(x) < WD(self), POST_ashr)
CMP(_ZNK4crab7wrapinteqES0_, "wrapint::operator==", ==)
CMP(_ZNK4crab7wrapintltES0_, "wrapint::operator<", <)
CMP(_ZNK4crab7wrapintleES0_, "wrapint::operator<=", <=)
CMP(_ZNK4crab7wrapintgeES0_, "wrapint::operator>=", >=)
void _ZNK4crab7wrapintngEv(W *ret, W *self){ PRE(P1(self), "wrapint::operator- (unary)"); W r; __CPROVER_assume(POST_neg(&r, self)); *ret = r; }
W *_ZN4crab7wrapintppEv(W *self){ PRE(P1(self), "wrapint::operator++"); W o = *self, r; __CPROVER_assume(w_is(r, o.f1, (o.f0 + 1) & msk(o.f1))); *self = r; return self; }
W *_ZN4crab7wrapintmmEv(W *self){ PRE(P1(self), "wrapint::operator--"); W o = *self, r; __CPROVER_assume(w_is(r, o.f1, (o.f0 - 1) & msk(o.f1))); *self = r; return self; }
void _ZNK4crab7wrapint4sextEm(W *ret, W *self, uint64_t bits){ PRE(P1(self) && bits <= 64 && WD(self) + bits <= 64, "wrapint::sext"); W r; __CPROVER_assume(POST_sext(&r, self, bits)); *ret = r; }
void _ZNK4crab7wrapint4zextEm(W *ret, W *self, uint64_t bits){ PRE(P1(self) && bits <= 64 && WD(self) + bits <= 64, "wrapint::zext"); W r; __CPROVER_assume(POST_zext(&r, self, bits)); *ret = r; }
void _ZNK4crab7wrapint10keep_lowerEm(W *ret, W *self, uint64_t bits){ PRE(P1(self) && bits >= 1, "wrapint::keep_lower"); W r; __CPROVER_assume(POST_keep_lower(&r, self, bits)); *ret = r; }
/* wrapint(uint64_t n, bitwidth_t w): the complete-object constructor C1 is an IR alias of C2 in lib/wrapint.cpp */
void _ZN4crab7wrapintC2Emm(W *self, uint64_t n, uint64_t w){ PRE(w >= 1 && w <= 64, "wrapint(n, width)"); W r; __CPROVER_assume(POST_ctor_nw(&r, n, w)); *self = r; }
void _ZN4crab7wrapintC1Emm(W *self, uint64_t n, uint64_t w){ _ZN4crab7wrapintC2Emm(self, n, w); }
void _ZN4crab7wrapintC2EN4ikos8z_numberEm(W *self, Z *n, uint64_t w){
  PRE(w >= 1 && w <= 64 && ZV(n) >= -((i128)1 << 63) && ZV(n) < ((i128)1 << 63), "wrapint(z_number, width)");
  W r; __CPROVER_assume(w_is(r, w, wrapz(ZV(n), w))); *self = r; }
void _ZN4crab7wrapintC1EN4ikos8z_numberEm(W *self, Z *n, uint64_t w){ _ZN4crab7wrapintC2EN4ikos8z_numberEm(self, n, w); }
STATICW(_ZN4crab7wrapint14get_signed_maxEm, "wrapint::get_signed_max", POST_smax)
STATICW(_ZN4crab7wrapint14get_signed_minEm, "wrapint::get_signed_min", POST_smin)
STATICW(_ZN4crab7wrapint16get_unsigned_maxEm, "wrapint::get_unsigned_max", POST_umax)
STATICW(_ZN4crab7wrapint16get_unsigned_minEm, "wrapint::get_unsigned_min", POST_umin)
unsigned char _ZNK4crab7wrapint3msbEv(W *self){ PRE(P1(self), "wrapint::msb"); return (N(self) >> (WD(self) - 1)) & 1; }
uint64_t _ZNK4crab7wrapint12get_uint64_tEv(W *self){ PRE(P1(self), "wrapint::get_uint64_t"); return N(self); }
uint64_t _ZNK4crab7wrapint12get_bitwidthEv(W *self){ PRE(P1(self), "wrapint::get_bitwidth"); return WD(self); }
void _ZNK4crab7wrapint19get_unsigned_bignumEv(Z *ret, W *self){ PRE(P1(self), "wrapint::get_unsigned_bignum"); ZSET(ret, (i128)(u128)N(self)); }
void _ZNK4crab7wrapint17get_signed_bignumEv(Z *ret, W *self){ PRE(P1(self), "wrapint::get_signed_bignum"); ZSET(ret, sxv(N(self), WD(self))); }
unsigned char _ZN4crab7wrapint12fits_wrapintEN4ikos8z_numberEm(Z *n, uint64_t w){ return w <= 64 && ZV(n) >= -((i128)1 << 63) && ZV(n) < ((i128)1 << 63); }
