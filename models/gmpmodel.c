/* Trusted model of the GMP entry points called by lib/bignums.cpp (DESIGN 2.4b, property C20).
 *
 * lib/bignums.cpp is compiled as it is, with the REAL layout of __mpz_struct
 *     { int _mp_alloc; int _mp_size; mp_limb_t *_mp_d; }      (f0, f1, f2 in the lowered C)
 * and __mpq_struct { __mpz_struct _mp_num, _mp_den; }.  Each __gmpz_* / __gmpq_* function below is given its
 * DOCUMENTED meaning (GMP manual, "Integer Functions", "Rational Number Functions") on a sign + magnitude
 * representation that follows real GMP:
 *     _mp_d    points to a heap array of GM_NL = 2 limbs of 64 bits (malloc in mpz_init*, free in mpz_clear);
 *     _mp_size = +n / -n where n is the number of significant limbs (0 for zero), the top limb d[n-1] != 0;
 *     limbs at index >= n are garbage (the model writes nondeterministic values there).
 * The value of an mpz is  sign(_mp_size) * (d[0] + 2^64 d[1])  restricted to |value| < 2^126 (GM_LIM): that
 * restriction is an OBLIGATION ("gmp model range ..."), not an assumption: a proof only goes through if the
 * contract's precondition keeps every operand and every result inside the range.  The generalisation to
 * larger magnitudes is the assumption "GMP is magnitude-oblivious" listed in unit.json.
 * A second representation without heap (-DGM_FLAT, |value| < 2^94) serves the composite functions: see gm_get.
 *
 * What is assumed (trusted) here and nowhere else:
 *   - the arithmetic meaning of each entry point as written below (add/sub/mul/neg exact, tdiv_q/tdiv_r
 *     truncating with the remainder taking the sign of the dividend, fdiv_q_2exp floor, mul_2exp exact,
 *     and/ior/xor as if two's complement with infinite sign extension, get_ui = |op| mod 2^64,
 *     get_si exact when it fits (unspecified otherwise), fits_* exact, cmp* only the SIGN of the result is
 *     specified, import/export with their order / endian / size / nails parameters on a little-endian host);
 *   - division by zero is an error of the caller (GMP divides by zero on purpose): obligation "gmp: division by zero";
 *   - malloc does not fail (as models/rt.c assumes of operator new);
 *   - rationals: see the mpq section (canonical form = positive denominator and coprime; coprimality and the
 *     canonical representatives are uninterpreted symbols with the few axioms stated there).
 * `*`, `/`, `%` on model values: see GM_mul / GM_tdiv / GM_trem below (uninterpreted with integer axioms, or bit-precise
 * with -DGM_PRECISE for small operands).
 */
#include <stdlib.h>
#include "unit_types.h"
#include "verif.h"
typedef struct S_struct___mpz_struct MPZ;
typedef struct S_struct___mpq_struct MPQ;
#define GM_NL 2
#define GM_BITS 126
#define GM_LIM (((i128)1) << GM_BITS)
#define GM_RANGE(c, what) __CPROVER_assert(c, "gmp model range: " what)

static uint64_t gm_nondet_u64(void){ uint64_t v; return v; }   /* an uninitialised local is an arbitrary value */
static uint32_t gm_nondet_u32(void){ uint32_t v; return v; }

/* ---- reading and writing values.
 * Default (heap) representation: as real GMP, see above.
 * -DGM_FLAT: the same sign + magnitude value WITHOUT a heap array, for composite functions (loops, long call chains) whose
 * proofs do not finish with a malloc/free per temporary (measured): _mp_size is as in GMP (sign * number of significant
 * 64-bit limbs), limb 0 is stored in the bits of the _mp_d field itself (never dereferenced), the low 32 bits of limb 1 in
 * _mp_alloc; range |value| < 2^94.  lib/bignums.cpp only ever touches _mp_size (mpz_sgn) and copies / swaps whole structs
 * outside the dropped hash(), so both representations are faithful to what the wrapper can observe; ownership (deep copy,
 * move, destructor) is checked with the heap representation only. */
#ifdef GM_FLAT
#undef GM_BITS
#define GM_BITS 94
#define GM_D0(p) ((uint64_t)(p)->f2)
#define GM_D1(p) ((uint64_t)(p)->f0)
#else
#define GM_D0(p) ((p)->f2[0])
#define GM_D1(p) ((p)->f2[1])
#endif
static i128 gm_get(const MPZ *p){
  int32_t s = (int32_t)p->f1;
  GM_RANGE(s >= -GM_NL && s <= GM_NL, "operand has at most 2 limbs");
  __CPROVER_assume(s >= -GM_NL && s <= GM_NL);
  uint32_t n = s < 0 ? (uint32_t)-s : (uint32_t)s;
  /* both limbs are read, only the n significant ones are used */
  uint64_t d0 = GM_D0(p), d1 = GM_D1(p);
  u128 m = n == 0 ? (u128)0 : (n == 1 ? (u128)d0 : (((u128)d1 << 64) | d0));
  __CPROVER_assert(n == 0 || (n == 1 ? d0 : d1) != 0, "gmp: operand is normalised (most significant limb is not zero)");
  GM_RANGE(m < (u128)GM_LIM, "operand magnitude inside the model range");
  __CPROVER_assume(m < (u128)GM_LIM);
  return s < 0 ? -(i128)m : (i128)m;
}
static void gm_put(MPZ *p, i128 v){
  GM_RANGE(v > -GM_LIM && v < GM_LIM, "result magnitude inside the model range");
  __CPROVER_assume(v > -GM_LIM && v < GM_LIM);
  u128 m = v < 0 ? (u128)(-v) : (u128)v;
  uint64_t lo = (uint64_t)m, hi = (uint64_t)(m >> 64);
  int32_t n = hi ? 2 : (lo ? 1 : 0);
#ifdef GM_FLAT
  p->f2 = (uint64_t *)(n >= 1 ? lo : gm_nondet_u64());
  p->f0 = n >= 2 ? (uint32_t)hi : gm_nondet_u32();
#else
  __CPROVER_assert((int32_t)p->f0 >= GM_NL, "gmp: destination was initialised (limb array allocated)");
  p->f2[0] = n >= 1 ? lo : gm_nondet_u64();
  p->f2[1] = n >= 2 ? hi : gm_nondet_u64();
#endif
  p->f1 = (uint32_t)(v < 0 ? -n : n);
}
static void gm_alloc(MPZ *p){
#ifdef GM_FLAT
  p->f0 = gm_nondet_u32(); p->f1 = 0; p->f2 = (uint64_t *)gm_nondet_u64();
#else
  uint64_t *d = (uint64_t *)malloc(GM_NL * sizeof(uint64_t));
  __CPROVER_assume(d != 0);
  p->f0 = GM_NL; p->f1 = 0; p->f2 = d;
#endif
}
static void gm_free(MPZ *p){
#ifndef GM_FLAT
  free(p->f2);
#endif
}

/* ---- initialisation, assignment, destruction */
void __gmpz_init(MPZ *x){ gm_alloc(x); }
void __gmpz_clear(MPZ *x){ gm_free(x); }
void __gmpz_init_set(MPZ *r, MPZ *a){ i128 v = gm_get(a); gm_alloc(r); gm_put(r, v); }
void __gmpz_init_set_si(MPZ *r, uint64_t n){ gm_alloc(r); gm_put(r, (i128)(int64_t)n); }
void __gmpz_set(MPZ *r, MPZ *a){ gm_put(r, gm_get(a)); }
void __gmpz_set_ui(MPZ *r, uint64_t n){ gm_put(r, (i128)(u128)n); }

/* ---- arithmetic */
void __gmpz_add(MPZ *r, MPZ *a, MPZ *b){ i128 x = gm_get(a), y = gm_get(b); gm_put(r, x + y); }
void __gmpz_sub(MPZ *r, MPZ *a, MPZ *b){ i128 x = gm_get(a), y = gm_get(b); gm_put(r, x - y); }
void __gmpz_add_ui(MPZ *r, MPZ *a, uint64_t n){ i128 x = gm_get(a); gm_put(r, x + (i128)(u128)n); }
void __gmpz_sub_ui(MPZ *r, MPZ *a, uint64_t n){ i128 x = gm_get(a); gm_put(r, x - (i128)(u128)n); }
void __gmpz_neg(MPZ *r, MPZ *a){ i128 x = gm_get(a); gm_put(r, -x); }
/* ---- non-linear operations.  GM_mul / GM_tdiv / GM_trem are THE mathematical product, the quotient rounded towards
 * zero and its remainder (b != 0).  With -DGM_PRECISE they are C's bit-precise * / % on __int128 (C11 6.5.5p6: truncation,
 * (a/b)*b + a%b == a): measured feasible only for operands below 2^8 because specification and model then hold two
 * multiplier / divider circuits whose equivalence no back end decides at 16 bits or more.  Otherwise they are uninterpreted
 * symbols constrained by the zero / unit / sign / magnitude rules below (every rule is a theorem of the integers); the
 * contracts name the same symbols, so a proof shows that the wrapper applies the RIGHT GMP operation (tdiv, not fdiv or
 * cdiv, which would be different symbols) to the RIGHT operands in the RIGHT order and delivers its result unchanged. */
static inline i128 gm_abs(i128 a){ return a < 0 ? -a : a; }
#ifdef GM_PRECISE
/* product through the magnitudes (a 64 x 64 -> 128 bit unsigned multiplication when both fit 64 bits, as they do under the
 * model's operand bound): the same value as a * b, in a form the SAT back end can decide for small operands */
static inline u128 gm_uabs_(i128 a){ return a < 0 ? (u128)0 - (u128)a : (u128)a; }
i128 GM_mul(i128 a, i128 b){
  u128 x = gm_uabs_(a), y = gm_uabs_(b);
  if ((x >> 64) != 0 || (y >> 64) != 0) return a * b;
  u128 m = (u128)(uint64_t)x * (u128)(uint64_t)y;
  return ((a < 0) != (b < 0)) ? (i128)((u128)0 - m) : (i128)m; }
i128 GM_tdiv(i128 a, i128 b){ return a / b; }
i128 GM_trem(i128 a, i128 b){ return a % b; }
#else
i128 __CPROVER_uninterpreted_gm_mul(i128, i128);
i128 __CPROVER_uninterpreted_gm_tdiv(i128, i128);
i128 __CPROVER_uninterpreted_gm_trem(i128, i128);
/* operands below 2^63 in magnitude (callers establish it), so the product is below 2^126 */
i128 GM_mul(i128 a, i128 b){
  if (a == 0 || b == 0) return 0;
  if (a == 1) return b;  if (b == 1) return a;
  if (a == -1) return -b; if (b == -1) return -a;
  i128 r = __CPROVER_uninterpreted_gm_mul(a, b);
  __CPROVER_assume(r == __CPROVER_uninterpreted_gm_mul(b, a));
  __CPROVER_assume(r > -((i128)1 << 126) && r < ((i128)1 << 126));
  __CPROVER_assume(r != 0 && ((r > 0) == ((a > 0) == (b > 0))) && gm_abs(r) >= gm_abs(a) && gm_abs(r) >= gm_abs(b));
  return r; }
i128 GM_tdiv(i128 a, i128 b){
  if (a == 0) return 0;
  if (b == 1) return a; if (b == -1) return -a;
  if (gm_abs(a) < gm_abs(b)) return 0;
  if (a == b) return 1; if (a == -b) return -1;
  i128 r = __CPROVER_uninterpreted_gm_tdiv(a, b);
  __CPROVER_assume(r > -GM_LIM && r < GM_LIM);
  __CPROVER_assume(r != 0 && ((r > 0) == ((a > 0) == (b > 0))) && gm_abs(r) <= gm_abs(a) / 2);
  return r; }
i128 GM_trem(i128 a, i128 b){
  if (a == 0 || b == 1 || b == -1) return 0;
  if (gm_abs(a) < gm_abs(b)) return a;
  if (a == b || a == -b) return 0;
  i128 r = __CPROVER_uninterpreted_gm_trem(a, b);
  __CPROVER_assume(r > -GM_LIM && r < GM_LIM);
  __CPROVER_assume(gm_abs(r) < gm_abs(b) && (r == 0 || ((r > 0) == (a > 0))));
  return r; }
#endif
#define GM_MULLIM (((i128)1) << 63)
static i128 gm_mul(i128 x, i128 y){
  GM_RANGE(x > -GM_MULLIM && x < GM_MULLIM && y > -GM_MULLIM && y < GM_MULLIM, "multiplication operands below 2^63");
  __CPROVER_assume(x > -GM_MULLIM && x < GM_MULLIM && y > -GM_MULLIM && y < GM_MULLIM);
  return GM_mul(x, y);
}
void __gmpz_mul(MPZ *r, MPZ *a, MPZ *b){ i128 x = gm_get(a), y = gm_get(b); gm_put(r, gm_mul(x, y)); }
/* tdiv: quotient rounded towards zero, remainder with the sign of the dividend */
void __gmpz_tdiv_q(MPZ *r, MPZ *a, MPZ *b){
  i128 x = gm_get(a), y = gm_get(b);
  __CPROVER_assert(y != 0, "gmp: division by zero"); __CPROVER_assume(y != 0);
  gm_put(r, GM_tdiv(x, y)); }
void __gmpz_tdiv_r(MPZ *r, MPZ *a, MPZ *b){
  i128 x = gm_get(a), y = gm_get(b);
  __CPROVER_assert(y != 0, "gmp: division by zero"); __CPROVER_assume(y != 0);
  gm_put(r, GM_trem(x, y)); }
/* r = a * 2^k */
void __gmpz_mul_2exp(MPZ *r, MPZ *a, uint64_t k){
  i128 x = gm_get(a);
  if (x == 0) { gm_put(r, 0); return; }
  GM_RANGE(k < GM_BITS, "left shift amount inside the model range");
  __CPROVER_assume(k < GM_BITS);
  u128 m = x < 0 ? (u128)(-x) : (u128)x;
  GM_RANGE(m < ((u128)GM_LIM >> k), "result magnitude inside the model range");
  __CPROVER_assume(m < ((u128)GM_LIM >> k));
  m <<= k;
  gm_put(r, x < 0 ? -(i128)m : (i128)m); }
/* r = floor(a / 2^k): arithmetic shift of the two's complement value (CBMC's >> on signed operands is arithmetic) */
void __gmpz_fdiv_q_2exp(MPZ *r, MPZ *a, uint64_t k){
  i128 x = gm_get(a);
  gm_put(r, k >= 127 ? (x < 0 ? (i128)-1 : (i128)0) : (x >> k)); }

/* ---- comparison: only the sign of the result is documented */
static uint32_t gm_sign_result(i128 x, i128 y){
  uint32_t c = gm_nondet_u32();
  __CPROVER_assume(x < y ? (int32_t)c < 0 : (x > y ? (int32_t)c > 0 : c == 0));
  return c; }
uint32_t __gmpz_cmp(MPZ *a, MPZ *b){ i128 x = gm_get(a), y = gm_get(b); return gm_sign_result(x, y); }

/* ---- logical operations: "as if two's complement arithmetic were used (with an infinite number of sign bits)":
 * for values of the model range that is the 128-bit two's complement operation */
void __gmpz_and(MPZ *r, MPZ *a, MPZ *b){ i128 x = gm_get(a), y = gm_get(b); gm_put(r, x & y); }
void __gmpz_ior(MPZ *r, MPZ *a, MPZ *b){ i128 x = gm_get(a), y = gm_get(b); gm_put(r, x | y); }
void __gmpz_xor(MPZ *r, MPZ *a, MPZ *b){ i128 x = gm_get(a), y = gm_get(b); gm_put(r, x ^ y); }

/* ---- conversions */
/* non-zero iff the value fits signed int / signed long (any non-zero value may be returned) */
uint32_t __gmpz_fits_sint_p(MPZ *a){ i128 x = gm_get(a); uint32_t c = gm_nondet_u32(); __CPROVER_assume((c != 0) == (x >= -((i128)1 << 31) && x < ((i128)1 << 31))); return c; }
uint32_t __gmpz_fits_slong_p(MPZ *a){ i128 x = gm_get(a); uint32_t c = gm_nondet_u32(); __CPROVER_assume((c != 0) == (x >= -((i128)1 << 63) && x < ((i128)1 << 63))); return c; }
/* "If op fits into a signed long int return the value of op.  Otherwise return the least significant part of op,
 * with the same sign as op ... the result is probably not very useful": unspecified here when it does not fit */
uint64_t __gmpz_get_si(MPZ *a){ i128 x = gm_get(a); if (x >= -((i128)1 << 63) && x < ((i128)1 << 63)) return (uint64_t)(int64_t)x; return gm_nondet_u64(); }
/* "If op is too big to fit an unsigned long then just the least significant bits that do fit are returned.
 * The sign of op is ignored, only the absolute value is used." */
uint64_t __gmpz_get_ui(MPZ *a){ i128 x = gm_get(a); u128 m = x < 0 ? (u128)(-x) : (u128)x; return (uint64_t)m; }

/* mpz_import (rop, count, order, size, endian, nails, op): rop = the unsigned number made of `count` words of `size`
 * bytes; order 1: most significant word first, -1: least significant first; endian 1: most significant byte first
 * within a word, -1: least significant first, 0: native (little endian: x86-64); nails: unused high bits.
 * Modelled for size = 8, nails = 0, count <= 2 (obligations). */
static uint64_t gm_bswap(uint64_t w){
  return (w >> 56) | ((w >> 40) & 0xff00ULL) | ((w >> 24) & 0xff0000ULL) | ((w >> 8) & 0xff000000ULL)
       | ((w << 8) & 0xff00000000ULL) | ((w << 24) & 0xff0000000000ULL) | ((w << 40) & 0xff000000000000ULL) | (w << 56); }
void __gmpz_import(MPZ *r, uint64_t count, uint32_t order, uint64_t size, uint32_t endian, uint64_t nails, uint8_t *op){
  __CPROVER_assert(size == 8 && nails == 0, "gmp model: import of full 64-bit words only");
  __CPROVER_assert((int32_t)order == 1 || (int32_t)order == -1, "gmp: order is 1 or -1");
  __CPROVER_assert((int32_t)endian == 1 || (int32_t)endian == -1 || endian == 0, "gmp: endian is 1, -1 or 0");
  GM_RANGE(count <= GM_NL, "import of at most 2 words");
  __CPROVER_assume(count <= GM_NL);
  const uint64_t *w = (const uint64_t *)op;
  u128 m = 0;
  if (count == 1) {
    uint64_t w0 = w[0]; if ((int32_t)endian == 1) w0 = gm_bswap(w0);
    m = w0;
  } else if (count == 2) {
    uint64_t w0 = w[0], w1 = w[1];
    if ((int32_t)endian == 1) { w0 = gm_bswap(w0); w1 = gm_bswap(w1); }
    m = (int32_t)order == 1 ? (((u128)w0 << 64) | w1) : (((u128)w1 << 64) | w0);
  }
  GM_RANGE(m < (u128)GM_LIM, "result magnitude inside the model range");
  __CPROVER_assume(m < (u128)GM_LIM);
  gm_put(r, (i128)m); }
/* mpz_export (rop, countp, order, size, endian, nails, op): writes |op| as words; the number of words produced is
 * the minimum needed (0 for op = 0: nothing is written); "*countp is set to the number of words" if countp is not
 * NULL; if rop is NULL the result array is allocated with the current allocation function; the sign is ignored.
 * Returns rop (or the allocated block). */
uint8_t *__gmpz_export(uint8_t *rop, uint64_t *countp, uint32_t order, uint64_t size, uint32_t endian, uint64_t nails, MPZ *op){
  __CPROVER_assert(size == 8 && nails == 0, "gmp model: export of full 64-bit words only");
  __CPROVER_assert((int32_t)order == 1 || (int32_t)order == -1, "gmp: order is 1 or -1");
  __CPROVER_assert((int32_t)endian == 1 || (int32_t)endian == -1 || endian == 0, "gmp: endian is 1, -1 or 0");
  i128 x = gm_get(op);
  u128 m = x < 0 ? (u128)(-x) : (u128)x;
  uint64_t lo = (uint64_t)m, hi = (uint64_t)(m >> 64);
  uint64_t count = hi ? 2 : (lo ? 1 : 0);
  if (rop == 0) { rop = (uint8_t *)malloc(count ? count * 8 : 1); __CPROVER_assume(rop != 0); }
  uint64_t *w = (uint64_t *)rop;
  if ((int32_t)endian == 1) { lo = gm_bswap(lo); hi = gm_bswap(hi); }
  if (count == 1) w[0] = lo;
  else if (count == 2) { if ((int32_t)order == 1) { w[0] = hi; w[1] = lo; } else { w[0] = lo; w[1] = hi; } }
  if (countp != 0) *countp = count;
  return rop; }

/* ================================================================== rationals
 * An mpq is the pair (num, den).  "Canonical form": den > 0 and gcd(num, den) = 1, zero is 0/1.  GMP: "All rational
 * arithmetic functions assume operands have a canonical form, and canonicalize their result" — that assumption is an
 * OBLIGATION here (gm_canon_check) and the result guarantee is assumed.
 * Coprimality is the uninterpreted predicate gm_coprime with the axioms in GM_coprime(); the canonical representative
 * of an arbitrary pair and the canonical results of + - * / are uninterpreted functions with the axioms stated at
 * each of them (positive denominator, coprime, sign, exact on integers).  The contracts use the same symbols. */
__CPROVER_bool __CPROVER_uninterpreted_gm_coprime(u128, u128);
static inline u128 gm_uabs(i128 a){ return a < 0 ? (u128)0 - (u128)a : (u128)a; }   /* never overflows */
bool GM_coprime(i128 n, i128 d){
  if (d == 1 || d == -1 || n == 1 || n == -1) return 1;
  if (n == 0 || d == 0) return 0;                       /* gcd(0, d) = |d| != 1, gcd(n, 0) = |n| != 1 */
  if (gm_uabs(n) == gm_uabs(d)) return 0;
  return __CPROVER_uninterpreted_gm_coprime(gm_uabs(n), gm_uabs(d)); }   /* gcd ignores signs */
bool GM_canon(i128 n, i128 d){ return d > 0 && GM_coprime(n, d); }
/* canonical representative (numerator, denominator) of n/d, d != 0 */
i128 __CPROVER_uninterpreted_gm_cann(i128, i128);
i128 __CPROVER_uninterpreted_gm_cand(i128, i128);
i128 GM_cann(i128 n, i128 d){
  if (GM_canon(n, d)) return n;
  if (n == 0) return 0;
  if (d == -1) return -n;
  i128 r = __CPROVER_uninterpreted_gm_cann(n, d);
  __CPROVER_assume(r > -GM_LIM && r < GM_LIM);
  /* sign of n/d, magnitude not above |n|, not zero */
  __CPROVER_assume(r != 0 && ((r > 0) == ((n > 0) == (d > 0))) && gm_abs(r) <= gm_abs(n));
  return r; }
i128 GM_cand(i128 n, i128 d){
  if (GM_canon(n, d)) return d;
  if (n == 0) return 1;
  if (d == -1) return 1;
  i128 r = __CPROVER_uninterpreted_gm_cand(n, d);
  __CPROVER_assume(r > 0 && r <= gm_abs(d));
  __CPROVER_assume(GM_coprime(GM_cann(n, d), r));
  return r; }
/* canonical results of the field operations on canonical operands: op 0 = +, 1 = -, 2 = *, 3 = / */
i128 __CPROVER_uninterpreted_gm_qopn(int, i128, i128, i128, i128);
i128 __CPROVER_uninterpreted_gm_qopd(int, i128, i128, i128, i128);
static i128 gm_int_result(int op, i128 a, i128 b){ return op == 0 ? a + b : (op == 1 ? a - b : GM_mul(a, b)); }
i128 GM_qopn(int op, i128 an, i128 ad, i128 bn, i128 bd){
  if (op <= 2 && ad == 1 && bd == 1) return gm_int_result(op, an, bn);           /* integers are a subring */
  if ((op == 0 || op == 1) && bn == 0) return an;                                   /* a + 0 = a - 0 = a */
  if (op == 0 && an == 0) return bn;
  if (op == 1 && an == 0) return -bn;
  if ((op == 2 || op == 3) && an == 0) return 0;
  if (op == 2 && bn == 0) return 0;
  if ((op == 2 || op == 3) && bn == 1 && bd == 1) return an;                       /* a * 1 = a / 1 = a */
  return __CPROVER_uninterpreted_gm_qopn(op, an, ad, bn, bd); }
i128 GM_qopd(int op, i128 an, i128 ad, i128 bn, i128 bd){
  if (op <= 2 && ad == 1 && bd == 1) return 1;
  if ((op == 0 || op == 1) && bn == 0) return ad;
  if ((op == 0 || op == 1) && an == 0) return bd;
  if ((op == 2 || op == 3) && an == 0) return 1;
  if (op == 2 && bn == 0) return 1;
  if ((op == 2 || op == 3) && bn == 1 && bd == 1) return ad;
  i128 r = __CPROVER_uninterpreted_gm_qopd(op, an, ad, bn, bd);
  __CPROVER_assume(r > 0 && GM_coprime(GM_qopn(op, an, ad, bn, bd), r));
  return r; }
/* numerators and denominators of the operands of + - * / below 2^31: the exact result (an*bd +- bn*ad)/(ad*bd),
 * (an*bn)/(ad*bd), (an*bd)/(ad*bn) then has numerator and denominator below 2^63, and so has its canonical form */
#define GM_QLIM (((i128)1) << 31)
#define GM_QRES (((i128)1) << 63)

#define QN(q) (&(q)->f0)
#define QD(q) (&(q)->f1)
static void gm_canon_check(i128 n, i128 d){
  __CPROVER_assert(GM_canon(n, d), "gmp: rational operand is in canonical form (positive denominator, no common factor)");
  __CPROVER_assume(GM_canon(n, d)); }
void __gmpq_init(MPQ *q){ gm_alloc(QN(q)); gm_put(QN(q), 0); gm_alloc(QD(q)); gm_put(QD(q), 1); }
void __gmpq_clear(MPQ *q){ gm_free(QN(q)); gm_free(QD(q)); }
/* copy; the operand is assumed canonical like every mpq operand (real GMP reads the denominator's _mp_size as a limb
 * count here: a negative denominator crashes it) */
void __gmpq_set(MPQ *r, MPQ *a){ i128 n = gm_get(QN(a)), d = gm_get(QD(a)); gm_canon_check(n, d); gm_put(QN(r), n); gm_put(QD(r), d); }
void __gmpq_set_z(MPQ *r, MPZ *a){ i128 n = gm_get(a); gm_put(QN(r), n); gm_put(QD(r), 1); }
/* mpq_set_d: "Set rop to the value of op.  There is no rounding, this conversion is exact."  Modelled for the only
 * double the verified functions pass (0.0 in `*this < 0`) and for small integral values. */
void __gmpq_set_d(MPQ *r, double v){
  __CPROVER_assert(v == (double)(int32_t)v, "gmp model: mpq_set_d of an integral double of small magnitude only");
  __CPROVER_assume(v == (double)(int32_t)v);
  gm_put(QN(r), (i128)(int32_t)v); gm_put(QD(r), 1); }
/* "Remove any factors that are common to the numerator and denominator of op, and make the denominator positive." */
void __gmpq_canonicalize(MPQ *q){
  i128 n = gm_get(QN(q)), d = gm_get(QD(q));
  __CPROVER_assert(d != 0, "gmp: division by zero"); __CPROVER_assume(d != 0);
  i128 cn = GM_cann(n, d), cd = GM_cand(n, d);
  gm_put(QN(q), cn); gm_put(QD(q), cd); }
static void gm_qop(int op, MPQ *r, MPQ *a, MPQ *b){
  i128 an = gm_get(QN(a)), ad = gm_get(QD(a)), bn = gm_get(QN(b)), bd = gm_get(QD(b));
  gm_canon_check(an, ad); gm_canon_check(bn, bd);
  if (op == 3) { __CPROVER_assert(bn != 0, "gmp: division by zero"); __CPROVER_assume(bn != 0); }
  GM_RANGE(gm_abs(an) < GM_QLIM && ad < GM_QLIM && gm_abs(bn) < GM_QLIM && bd < GM_QLIM, "rational operands (numerator, denominator) below 2^31");
  __CPROVER_assume(gm_abs(an) < GM_QLIM && ad < GM_QLIM && gm_abs(bn) < GM_QLIM && bd < GM_QLIM);
  i128 rn = GM_qopn(op, an, ad, bn, bd), rd = GM_qopd(op, an, ad, bn, bd);
  __CPROVER_assume(rn > -GM_QRES && rn < GM_QRES && rd < GM_QRES);
  gm_put(QN(r), rn); gm_put(QD(r), rd); }
void __gmpq_add(MPQ *r, MPQ *a, MPQ *b){ gm_qop(0, r, a, b); }
void __gmpq_sub(MPQ *r, MPQ *a, MPQ *b){ gm_qop(1, r, a, b); }
void __gmpq_mul(MPQ *r, MPQ *a, MPQ *b){ gm_qop(2, r, a, b); }
void __gmpq_div(MPQ *r, MPQ *a, MPQ *b){ gm_qop(3, r, a, b); }
void __gmpq_neg(MPQ *r, MPQ *a){ i128 n = gm_get(QN(a)), d = gm_get(QD(a)); gm_canon_check(n, d); gm_put(QN(r), -n); gm_put(QD(r), d); }
/* sign of a - b for canonical operands: sign of an*bd - bn*ad (denominators positive) */
uint32_t __gmpq_cmp(MPQ *a, MPQ *b){
  i128 an = gm_get(QN(a)), ad = gm_get(QD(a)), bn = gm_get(QN(b)), bd = gm_get(QD(b));
  gm_canon_check(an, ad); gm_canon_check(bn, bd);
  if (bn == 0) return gm_sign_result(an, 0);
  if (an == 0) return gm_sign_result(0, bn);
  return gm_sign_result(gm_mul(an, bd), gm_mul(bn, ad)); }
/* r = a * 2^k, canonical: modelled for integers (den = 1) only */
void __gmpq_mul_2exp(MPQ *r, MPQ *a, uint64_t k){
  i128 n = gm_get(QN(a)), d = gm_get(QD(a)); gm_canon_check(n, d);
  __CPROVER_assert(d == 1 || n == 0, "gmp model: mpq_mul_2exp of an integer only");
  __CPROVER_assume(d == 1 || n == 0);
  MPZ *rn = QN(r);
  if (n == 0) { gm_put(rn, 0); gm_put(QD(r), 1); return; }
  GM_RANGE(k < GM_BITS, "left shift amount inside the model range");
  __CPROVER_assume(k < GM_BITS);
  u128 m = n < 0 ? (u128)(-n) : (u128)n;
  GM_RANGE(m < ((u128)GM_LIM >> k), "result magnitude inside the model range");
  __CPROVER_assume(m < ((u128)GM_LIM >> k));
  m <<= k;
  gm_put(rn, n < 0 ? -(i128)m : (i128)m); gm_put(QD(r), 1); }

/* ================================================================== entry points lib/bignums.cpp does not call today.
 * They are modelled so that a change of the wrapper to a neighbouring GMP function (fdiv for tdiv, tdiv_q_2exp for
 * fdiv_q_2exp, ...) is judged against the contract (a violation) instead of stopping the run with "no body". */
static i128 gm_fdiv(i128 x, i128 y){ i128 q = GM_tdiv(x, y), r = GM_trem(x, y); return (r != 0 && ((r < 0) != (y < 0))) ? q - 1 : q; }
static i128 gm_cdiv(i128 x, i128 y){ i128 q = GM_tdiv(x, y), r = GM_trem(x, y); return (r != 0 && ((r < 0) == (y < 0))) ? q + 1 : q; }
#define GM_DIVFN(name, EXPR) void name(MPZ *r, MPZ *a, MPZ *b){ i128 x = gm_get(a), y = gm_get(b); \
  __CPROVER_assert(y != 0, "gmp: division by zero"); __CPROVER_assume(y != 0); gm_put(r, EXPR); }
GM_DIVFN(__gmpz_fdiv_q, gm_fdiv(x, y))
GM_DIVFN(__gmpz_cdiv_q, gm_cdiv(x, y))
/* the remainders of floor / ceiling division: x - q*y, i.e. the truncated remainder corrected by the divisor */
GM_DIVFN(__gmpz_fdiv_r, (GM_trem(x, y) != 0 && ((GM_trem(x, y) < 0) != (y < 0))) ? GM_trem(x, y) + y : GM_trem(x, y))
GM_DIVFN(__gmpz_cdiv_r, (GM_trem(x, y) != 0 && ((GM_trem(x, y) < 0) == (y < 0))) ? GM_trem(x, y) - y : GM_trem(x, y))
/* r = a / 2^k rounded towards zero */
void __gmpz_tdiv_q_2exp(MPZ *r, MPZ *a, uint64_t k){
  i128 x = gm_get(a); u128 m = gm_uabs(x); m = k >= 127 ? (u128)0 : (m >> k);
  gm_put(r, x < 0 ? -(i128)m : (i128)m); }
void __gmpz_cdiv_q_2exp(MPZ *r, MPZ *a, uint64_t k){
  i128 x = gm_get(a); i128 f = k >= 127 ? (x < 0 ? (i128)-1 : (i128)0) : (x >> k);
  bool exact = k >= 127 ? x == 0 : ((f << k) == x);
  gm_put(r, exact ? f : f + 1); }
void __gmpz_abs(MPZ *r, MPZ *a){ i128 x = gm_get(a); gm_put(r, x < 0 ? -x : x); }
void __gmpz_com(MPZ *r, MPZ *a){ i128 x = gm_get(a); gm_put(r, ~x); }      /* one's complement: -x - 1 */
uint32_t __gmpz_cmp_si(MPZ *a, uint64_t n){ i128 x = gm_get(a); return gm_sign_result(x, (i128)(int64_t)n); }
uint32_t __gmpz_cmp_ui(MPZ *a, uint64_t n){ i128 x = gm_get(a); return gm_sign_result(x, (i128)(u128)n); }
void __gmpz_set_si(MPZ *r, uint64_t n){ gm_put(r, (i128)(int64_t)n); }
void __gmpz_init_set_ui(MPZ *r, uint64_t n){ gm_alloc(r); gm_put(r, (i128)(u128)n); }
void __gmpz_swap(MPZ *a, MPZ *b){ MPZ t = *a; *a = *b; *b = t; }
void __gmpz_mul_si(MPZ *r, MPZ *a, uint64_t n){ i128 x = gm_get(a); gm_put(r, gm_mul(x, (i128)(int64_t)n)); }
void __gmpz_mul_ui(MPZ *r, MPZ *a, uint64_t n){ i128 x = gm_get(a); gm_put(r, gm_mul(x, (i128)(u128)n)); }
uint32_t __gmpz_fits_ulong_p(MPZ *a){ i128 x = gm_get(a); uint32_t c = gm_nondet_u32(); __CPROVER_assume((c != 0) == (x >= 0 && x < ((i128)1 << 64))); return c; }
/* rationals */
uint32_t __gmpq_equal(MPQ *a, MPQ *b){
  i128 an = gm_get(QN(a)), ad = gm_get(QD(a)), bn = gm_get(QN(b)), bd = gm_get(QD(b));
  gm_canon_check(an, ad); gm_canon_check(bn, bd);
  uint32_t c = gm_nondet_u32(); __CPROVER_assume((c != 0) == (an == bn && ad == bd)); return c; }   /* canonical forms are unique */
void __gmpq_set_num(MPQ *q, MPZ *n){ gm_put(QN(q), gm_get(n)); }
void __gmpq_set_den(MPQ *q, MPZ *d){ gm_put(QD(q), gm_get(d)); }
void __gmpq_get_num(MPZ *n, MPQ *q){ gm_put(n, gm_get(QN(q))); }
void __gmpq_get_den(MPZ *d, MPQ *q){ gm_put(d, gm_get(QD(q))); }
void __gmpq_abs(MPQ *r, MPQ *a){ i128 n = gm_get(QN(a)), d = gm_get(QD(a)); gm_canon_check(n, d); gm_put(QN(r), n < 0 ? -n : n); gm_put(QD(r), d); }
void __gmpq_inv(MPQ *r, MPQ *a){ i128 n = gm_get(QN(a)), d = gm_get(QD(a)); gm_canon_check(n, d);
  __CPROVER_assert(n != 0, "gmp: division by zero"); __CPROVER_assume(n != 0);
  gm_put(QN(r), n < 0 ? -d : d); gm_put(QD(r), n < 0 ? -n : n); }

/* ---- further documented queries, not called by the unmodified lib/bignums.cpp: modelled so that a change of the wrapper
 * that starts using them is judged against the contracts instead of stopping at an undefined function */
/* mpz_sizeinbase(op, 2): number of bits of |op|; 1 for op = 0.  Other bases: exact or one too big (GMP manual): only
 * base 2 is modelled, anything else is an obligation. */
uint64_t __gmpz_sizeinbase(MPZ *a, uint32_t base){
  __CPROVER_assert(base == 2, "gmp model: mpz_sizeinbase is modelled for base 2 only");
  u128 m = gm_uabs(gm_get(a)); uint64_t n = 0;
  for (int i = 0; i < 128; i++) if ((m >> i) != 0) n = (uint64_t)i + 1;
  return n == 0 ? 1 : n; }
uint32_t __gmpz_cmpabs(MPZ *a, MPZ *b){ u128 x = gm_uabs(gm_get(a)), y = gm_uabs(gm_get(b)); uint32_t c = gm_nondet_u32(); __CPROVER_assume(x < y ? (int32_t)c < 0 : (x > y ? (int32_t)c > 0 : c == 0)); return c; }
uint32_t __gmpz_cmpabs_ui(MPZ *a, uint64_t n){ u128 x = gm_uabs(gm_get(a)); uint32_t c = gm_nondet_u32(); __CPROVER_assume(x < (u128)n ? (int32_t)c < 0 : (x > (u128)n ? (int32_t)c > 0 : c == 0)); return c; }
/* mpz_tstbit: bit of the two's complement representation with infinite sign extension */
uint32_t __gmpz_tstbit(MPZ *a, uint64_t k){ i128 x = gm_get(a); return k >= 127 ? (x < 0) : (uint32_t)((x >> k) & 1); }
uint32_t __gmpz_fits_uint_p(MPZ *a){ i128 x = gm_get(a); uint32_t c = gm_nondet_u32(); __CPROVER_assume((c != 0) == (x >= 0 && x < ((i128)1 << 32))); return c; }
