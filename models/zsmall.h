/* BOUNDED cross-check mode of the z_number model (-DZM_SMALL=16|32, after units/congruence/zsmall.c): the three
 * symbols * / % are the machine operations on ZM_SMALL-bit signed integers, with the obligation that operands fit
 * ZM_SMALL-2 bits.  Division is schoolbook shift-and-subtract (cbmc encodes `/` as a multiplier relation through which
 * SAT does not propagate).  Complete for that range and nothing more: checks using it carry bounded=. */
#ifndef ZSMALL_H
#define ZSMALL_H
#include <stdint.h>
#if ZM_SMALL == 16
typedef int16_t zs_t; typedef int32_t zw_t; typedef uint16_t zu_t;
#elif ZM_SMALL == 32
typedef int32_t zs_t; typedef int64_t zw_t; typedef uint32_t zu_t;
#else
#error "ZM_SMALL must be 16 or 32"
#endif
#define ZS_LIM (((__int128)1) << (ZM_SMALL - 2))
static inline int zs_fits(__int128 v){ return v > -ZS_LIM && v < ZS_LIM; }
static inline void zs_udivrem(zu_t n, zu_t d, zu_t *q, zu_t *r){
  zu_t qq = 0, rr = 0;
  for (int i = ZM_SMALL - 3; i >= 0; i--) { rr = (zu_t)((rr << 1) | ((n >> i) & 1)); if (rr >= d) { rr = (zu_t)(rr - d); qq |= (zu_t)((zu_t)1 << i); } }
  *q = qq; *r = rr; }
/* side-effect-free versions (no obligation): operands that do not fit give an arbitrary but fixed result */
static inline __int128 zs_mul_pure(__int128 a, __int128 b){ return (__int128)((zw_t)(zs_t)a * (zw_t)(zs_t)b); }
static inline __int128 zs_div_pure(__int128 a, __int128 b){
  zu_t q, r; zs_udivrem((zu_t)(a < 0 ? -a : a), (zu_t)(b < 0 ? -b : b), &q, &r);
  return ((a < 0) != (b < 0)) ? -(__int128)q : (__int128)q; }
static inline __int128 zs_rem_pure(__int128 a, __int128 b){
  zu_t q, r; zs_udivrem((zu_t)(a < 0 ? -a : a), (zu_t)(b < 0 ? -b : b), &q, &r);
  return a < 0 ? -(__int128)r : (__int128)r; }
#endif
