/* Trusted run-time model, variant of models/rt_detalloc.c for units whose only heap objects are the element arrays of
 * std::vector<ikos::interval<z_number>> (units/dis_interval).  Everything is models/rt.c (included textually) except
 * operator new / new[]:
 *   rt_detalloc.c returns a fresh object of EXACTLY the requested size.  When the requested size is data dependent (a
 *   vector copy of a result list whose length depends on which per-interval results were bottom), cbmc has to model an
 *   object of symbolic size: measured on dis_interval::operator+ with ONE disjunct per operand: propositional reduction
 *   runs out of 16 GB.
 *   Here every allocation returns a fresh object of the FIXED size NEWCAP * sizeof(interval) (typed as an array of
 *   intervals, so cbmc keeps it field-wise), and it is an OBLIGATION that the request fits ("allocation within the model's
 *   capacity").  This is what the C++ standard promises of operator new (a block of AT LEAST the requested size) with a
 *   particular choice of slack.  Consequence, stated in the unit's assumptions: an access beyond the requested size but
 *   inside the block is not reported as out of bounds (memory-safety checking of the vector storage is weaker than with
 *   rt_detalloc.c); functional behaviour is unaffected, the program cannot observe the size of a block.
 * ASSUMPTION as in rt.c: operator new does not fail. */
#include "unit_types.h"
#define _Znwm rtc_Znwm_malloc_unused
#define _Znam rtc_Znam_malloc_unused
#include "rt.c"
#undef _Znwm
#undef _Znam
#ifndef NEWCAP
#define NEWCAP 4
#endif
void *_Znwm(unsigned long n){
  __CPROVER_assert(n <= NEWCAP * sizeof(struct S_class_ikos__interval), "allocation within the model's capacity (NEWCAP intervals)");
  return __CPROVER_allocate(NEWCAP * sizeof(struct S_class_ikos__interval), 0); }
void *_Znam(unsigned long n){ return _Znwm(n); }
