/* The few members of ikos::bound<z_number> / ikos::interval<z_number> (lib/interval.cpp) that wrapped_interval::to_interval
 * calls, AS THEIR CONTRACTS of unit interval (units/interval/contracts.c: i_top, i_bottom, i_ctor2; bound(z_number) is the
 * finite bound n), in the vocabulary of units/interval/spec.h; same form as models/wrapint_contracts_model.c:
 * assert(precondition); result := the value the contract pins down.  The complete-object constructors (C1) are IR aliases
 * of the base-object constructors (C2) that unit interval proves. */
#include "unit_types.h"
#include "../units/interval/spec.h"
#define PRE(c, what) __CPROVER_assert(c, what " precondition (contract of units/interval)")
/* bound(z_number n): the finite bound n */
void _ZN4ikos5boundINS_8z_numberEEC2ES1_(B *self, Z *n){ PRE(ZV(n) > -ZB && ZV(n) < ZB, "bound(z_number)"); *self = mkfin(ZV(n)); }
void _ZN4ikos5boundINS_8z_numberEEC1ES1_(B *self, Z *n){ _ZN4ikos5boundINS_8z_numberEEC2ES1_(self, n); }
/* interval(bound lb, bound ub): [lb, ub], bottom when lb > ub (contract i_ctor2) */
void _ZN4ikos8intervalINS_8z_numberEEC2ENS_5boundIS1_EES4_(I *self, B *lb, B *ub){
  PRE(b_ok(*lb) && b_ok(*ub) && !b_pinf(*lb) && !b_minf(*ub), "interval(bound, bound)");
  I r; __CPROVER_assume(i_ok(r) && (b_le(*lb, *ub) ? i_is(r, *lb, *ub) : i_bot(r))); *self = r; }
void _ZN4ikos8intervalINS_8z_numberEEC1ENS_5boundIS1_EES4_(I *self, B *lb, B *ub){ _ZN4ikos8intervalINS_8z_numberEEC2ENS_5boundIS1_EES4_(self, lb, ub); }
void _ZN4ikos8intervalINS_8z_numberEE3topEv(I *ret){ I r; __CPROVER_assume(i_ok(r) && i_top(r) && !i_bot(r)); *ret = r; }
void _ZN4ikos8intervalINS_8z_numberEE6bottomEv(I *ret){ I r; __CPROVER_assume(i_ok(r) && i_bot(r) && !i_top(r)); *ret = r; }
