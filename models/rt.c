/* Trusted run-time model (listed in every evidence file under trusted_base).
 * operator new/delete -> malloc/free; non-returning library exits; CRAB_ERROR reachability is an
 * OBLIGATION: crab::errs() is only ever called on the way to std::exit (CRAB_ERROR) or in a warning,
 * and the functions under contract must not reach it under their precondition unless the contract
 * says so (ALLOW_CRAB_ERROR: the error exit is then a legal non-return and postconditions are
 * conditional on returning). */
#include <stdlib.h>
#include <stdint.h>
#ifndef ALLOW_CRAB_ERROR
#define ALLOW_CRAB_ERROR 0
#endif
void *_Znwm(unsigned long n){ void *p = malloc(n); __CPROVER_assume(p != 0); return p; }
void *_Znam(unsigned long n){ void *p = malloc(n); __CPROVER_assume(p != 0); return p; }
void _ZdlPv(void *p){ free(p); }
void _ZdaPv(void *p){ free(p); }
void _ZdlPvm(void *p, unsigned long n){ free(p); }
void __cxa_pure_virtual(void){ __CPROVER_assert(0, "pure virtual call"); __CPROVER_assume(0); }
void _ZSt17__throw_bad_allocv(void){ __CPROVER_assume(0); }
void _ZSt28__throw_bad_array_new_lengthv(void){ __CPROVER_assume(0); }
void _ZSt20__throw_length_errorPKc(const char *c){ __CPROVER_assume(0); }
void _ZSt24__throw_out_of_range_fmtPKcz(const char *c, ...){ __CPROVER_assert(0, "std::out_of_range thrown"); __CPROVER_assume(0); }
void _ZSt19__throw_logic_errorPKc(const char *c){ __CPROVER_assert(0, "std::logic_error thrown"); __CPROVER_assume(0); }
void *_ZN4crab4errsEv(void){
  __CPROVER_assert(ALLOW_CRAB_ERROR, "CRAB_ERROR unreachable under the precondition");
  __CPROVER_assume(0); return 0; }
void *_ZN4crab4outsEv(void){ __CPROVER_assume(0); return 0; }
void exit(int c){ __CPROVER_assume(0); }
void abort(void){ __CPROVER_assume(0); }
