/* Trusted model of ikos::q_number for code above it: a pair (num, den) of model integers with den > 0;
 * only what the verified units call.  round_to_upper/lower are uninterpreted ceil/floor symbols that the
 * contracts mention by name (their relation to mpq arithmetic is C20's business). */
#include "unit_types.h"
#include "zmodel.h"
typedef struct S_class_ikos__q_number Q;
#define QNUM(q) (&(q)->f0.a.f0)
#define QDEN(q) (&(q)->f0.a.f1)
static inline i128 zv_raw(struct S_struct___mpz_struct *m){ return (i128)(((u128)m->f1 << 64) | (u128)m->f0); }
i128 __CPROVER_uninterpreted_qceil(i128, i128);
i128 __CPROVER_uninterpreted_qfloor(i128, i128);
i128 QM_ceil(i128 n, i128 d){ if (d == 1) return n; return __CPROVER_uninterpreted_qceil(n, d); }
i128 QM_floor(i128 n, i128 d){ if (d == 1) return n; return __CPROVER_uninterpreted_qfloor(n, d); }
void _ZN4ikos8q_numberC1ERKS0_(Q *a, Q *b){ *a = *b; }
void _ZN4ikos8q_numberC2ERKS0_(Q *a, Q *b){ *a = *b; }
void _ZN4ikos8q_numberD1Ev(Q *a){}
void _ZN4ikos8q_numberD2Ev(Q *a){}
void _ZNK4ikos8q_number14round_to_upperEv(Z *r, Q *q){ ZSET(r, QM_ceil(zv_raw(QNUM(q)), zv_raw(QDEN(q)))); }
void _ZNK4ikos8q_number14round_to_lowerEv(Z *r, Q *q){ ZSET(r, QM_floor(zv_raw(QNUM(q)), zv_raw(QDEN(q)))); }
