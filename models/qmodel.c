/* Trusted model of ikos::q_number for code above it: a pair (num, den) of model integers with den > 0;
 * only what the verified units call.  round_to_upper/lower are uninterpreted ceil/floor symbols that the
 * contracts mention by name (their relation to mpq arithmetic is C20's business). */
#include "unit_types.h"
#include "zmodel.h"
typedef struct S_class_ikos__q_number Q;
#define QNUM(q) (&(q)->f0.a.f0)
#define QDEN(q) (&(q)->f0.a.f1)
static inline i128 zv_raw(struct S_struct___mpz_struct *m){ return (i128)(((u128)m->f1 << 64) | (u128)m->f0); }
i128 __CPROVER_uninterpreted_qceil(i128, i128);
i128 __CPROVER_uninterpreted_qfloor(i128, i128);
#ifdef QM_PRECISE
/* precise mode (bounded checks only): small numerators / denominators, machine division */
i128 QM_floor(i128 n, i128 d){
  __CPROVER_assert(d > 0 && d < 64 && n > -4096 && n < 4096, "q model (precise mode): operands are small");
  int32_t nn = (int32_t)n, dd = (int32_t)d; int32_t q = nn / dd; if (nn % dd != 0 && nn < 0) q--; return q; }
i128 QM_ceil(i128 n, i128 d){
  __CPROVER_assert(d > 0 && d < 64 && n > -4096 && n < 4096, "q model (precise mode): operands are small");
  int32_t nn = (int32_t)n, dd = (int32_t)d; int32_t q = nn / dd; if (nn % dd != 0 && nn > 0) q++; return q; }
#else
i128 QM_ceil(i128 n, i128 d){ if (d == 1) return n; return __CPROVER_uninterpreted_qceil(n, d); }
i128 QM_floor(i128 n, i128 d){ if (d == 1) return n; return __CPROVER_uninterpreted_qfloor(n, d); }
#endif
void _ZN4ikos8q_numberC1ERKS0_(Q *a, Q *b){ *a = *b; }
void _ZN4ikos8q_numberC2ERKS0_(Q *a, Q *b){ *a = *b; }
void _ZN4ikos8q_numberD1Ev(Q *a){}
void _ZN4ikos8q_numberD2Ev(Q *a){}
void _ZNK4ikos8q_number14round_to_upperEv(Z *r, Q *q){ ZSET(r, QM_ceil(zv_raw(QNUM(q)), zv_raw(QDEN(q)))); }
void _ZNK4ikos8q_number14round_to_lowerEv(Z *r, Q *q){ ZSET(r, QM_floor(zv_raw(QNUM(q)), zv_raw(QDEN(q)))); }

/* q_number(z): the integer over 1; moves are copies (the moved-from operand is left unchanged) */
static inline void zset_raw(struct S_struct___mpz_struct *m, i128 v){ m->f0 = (uint64_t)(u128)v; m->f1 = (uint64_t)((u128)v >> 64); }
void _ZN4ikos8q_numberC1ERKNS_8z_numberE(Q *a, Z *z){ zset_raw(QNUM(a), ZV(z)); zset_raw(QDEN(a), 1); }
void _ZN4ikos8q_numberC2ERKNS_8z_numberE(Q *a, Z *z){ _ZN4ikos8q_numberC1ERKNS_8z_numberE(a, z); }
void _ZN4ikos8q_numberC1EOS0_(Q *a, Q *b){ *a = *b; }
void _ZN4ikos8q_numberC2EOS0_(Q *a, Q *b){ *a = *b; }
Q *_ZN4ikos8q_numberaSEOS0_(Q *a, Q *b){ *a = *b; return a; }
Q *_ZN4ikos8q_numberaSERKS0_(Q *a, Q *b){ *a = *b; return a; }
/* q_number(double): integral values only (the call sites in reach pass the literals 0, 1, -1: placeholder values and
 * the numbers stored in infinite bounds) */
void _ZN4ikos8q_numberC1Ed(Q *a, double d){ int64_t i = (int64_t)d; __CPROVER_assert((double)i == d && i >= -1 && i <= 1, "q model: q_number(double) is modelled for 0, 1, -1 only"); zset_raw(QNUM(a), i); zset_raw(QDEN(a), 1); }
void _ZN4ikos8q_numberC2Ed(Q *a, double d){ _ZN4ikos8q_numberC1Ed(a, d); }
/* comparisons: exact by cross multiplication (denominators are positive); in precise mode the operands are small and
 * 64-bit products are exact, otherwise both operands must be integers (denominator 1) */
static inline int q_cmp(Q *a, Q *b){
  i128 an = zv_raw(QNUM(a)), ad = zv_raw(QDEN(a)), bn = zv_raw(QNUM(b)), bd = zv_raw(QDEN(b));
#ifdef QM_PRECISE
  __CPROVER_assert(ad > 0 && ad < 64 && bd > 0 && bd < 64 && an > -4096 && an < 4096 && bn > -4096 && bn < 4096, "q model (precise mode): operands are small");
  int64_t l = (int64_t)an * (int64_t)bd, r = (int64_t)bn * (int64_t)ad;
#else
  __CPROVER_assert(ad == 1 && bd == 1, "q model: comparison of non-integers needs precise mode");
  i128 l = an, r = bn;
#endif
  return l < r ? -1 : (l > r ? 1 : 0); }
unsigned char _ZNK4ikos8q_numbergtES0_(Q *a, Q *b){ return q_cmp(a, b) > 0; }
unsigned char _ZNK4ikos8q_numberltES0_(Q *a, Q *b){ return q_cmp(a, b) < 0; }
unsigned char _ZNK4ikos8q_numbergeES0_(Q *a, Q *b){ return q_cmp(a, b) >= 0; }
unsigned char _ZNK4ikos8q_numberleES0_(Q *a, Q *b){ return q_cmp(a, b) <= 0; }
unsigned char _ZNK4ikos8q_numbereqES0_(Q *a, Q *b){ return q_cmp(a, b) == 0; }
