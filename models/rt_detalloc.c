/* Trusted run-time model, variant of models/rt.c with DETERMINISTIC allocation (for units that run real
 * libstdc++ containers: std::vector growth).  Everything is models/rt.c (included textually) except operator
 * new / new[]: rt.c models them as `p = malloc(n); assume(p != 0)`; with cbmc 6 malloc may fail, so the result is
 * the term `fail ? NULL : &object` even after the assumption, pointer differences computed from it (vector::size(),
 * iterator subtraction) are no longer constants for symbolic execution and every later access to the vector's
 * storage becomes a byte extraction at a symbolic offset (measured: thresholds constructor 12M variables / 80M clauses,
 * no back end answers; with this model 1M variables, 20 s).  Here the allocation is __CPROVER_allocate: a fresh object of
 * exactly n bytes, never null.  The ASSUMPTION is the same as in rt.c (operator new does not fail); bounds,
 * use-after-free and double-free checks on the object are unchanged (operator delete is still free()). */
#define _Znwm rtc_Znwm_malloc_unused
#define _Znam rtc_Znam_malloc_unused
#include "rt.c"
#undef _Znwm
#undef _Znam
void *_Znwm(unsigned long n){ return __CPROVER_allocate(n, 0); }
void *_Znam(unsigned long n){ return __CPROVER_allocate(n, 0); }
