/* see zmodel.h */
#include "unit_types.h"
#include "zmodel.h"
#define RANGE(v) __CPROVER_assert(z_inrange(v), "z model range: value stays below 2^100 in magnitude")

#if defined(ZM_SMALL) && !defined(__CPROVER_uninterpreted_zmul)
/* bounded mode: see zsmall.h */
i128 ZM_mul(i128 a, i128 b){ __CPROVER_assert(zs_fits(a) && zs_fits(b), "z model range: small-precise operands fit ZM_SMALL-2 bits"); return zs_mul_pure(a, b); }
i128 ZM_div(i128 a, i128 b){ __CPROVER_assert(zs_fits(a) && zs_fits(b) && b != 0, "z model range: small-precise operands fit ZM_SMALL-2 bits"); __CPROVER_assume(b != 0); return zs_div_pure(a, b); }
i128 ZM_rem(i128 a, i128 b){ __CPROVER_assert(zs_fits(a) && zs_fits(b) && b != 0, "z model range: small-precise operands fit ZM_SMALL-2 bits"); __CPROVER_assume(b != 0); return zs_rem_pure(a, b); }
#elif defined(ZM_PRECISE)
i128 ZM_mul(i128 a, i128 b){ return a * b; }
i128 ZM_div(i128 a, i128 b){ return a / b; }
i128 ZM_rem(i128 a, i128 b){ return a % b; }
#else
/* Every call returns the uninterpreted term UF(a,b) itself (so that specifications can name the same term with the
 * macros ZM_*_pure of zmodel.h without sharing a function with the code: dfcc mishandles such sharing) and ASSUMES
 * the unit / zero / sign / magnitude rules of the mathematical operation at this argument pair; every rule is a
 * schema discharged over the integers in lemmas/zm_sign_rules.smt2. */
static inline i128 zabs(i128 a){ return a < 0 ? -a : a; }
i128 ZM_mul(i128 a, i128 b){
  bool special = (a == 0 || b == 0 || a == 1 || b == 1 || a == -1 || b == -1);
  /* the result-range assumption below is sound only for operands below 2^50: that is an obligation */
  __CPROVER_assert(special || (zabs(a) < ((i128)1 << 50) && zabs(b) < ((i128)1 << 50)), "z model range: multiplication operands stay below 2^50 in magnitude");
  i128 r = __CPROVER_uninterpreted_zmul(a, b);
  __CPROVER_assume((a == 0 || b == 0) ? r == 0 : a == 1 ? r == b : b == 1 ? r == a : a == -1 ? r == -b : b == -1 ? r == -a
                   : (z_inrange(r) && r != 0 && ((r > 0) == ((a > 0) == (b > 0)))));
#ifdef ZM_MUL_FULL_AXIOMS
  __CPROVER_assume(r == __CPROVER_uninterpreted_zmul(b, a));
  __CPROVER_assume(special || (zabs(r) >= zabs(a) && zabs(r) >= zabs(b)));
#endif
  return r;
}
/* truncating division, b != 0 */
i128 ZM_div(i128 a, i128 b){
  __CPROVER_assert(z_inrange(a) && z_inrange(b), "z model range: division operands stay below 2^100 in magnitude");
  i128 r = __CPROVER_uninterpreted_zdiv(a, b);
  __CPROVER_assume(a == 0 ? r == 0 : b == 1 ? r == a : b == -1 ? r == -a : zabs(a) < zabs(b) ? r == 0 : a == b ? r == 1 : a == -b ? r == -1
                   : (z_inrange(r) && r != 0 && ((r > 0) == ((a > 0) == (b > 0))) && zabs(r) <= (zabs(a) >> 1) + (zabs(b) == 1)));
  return r;
}
/* remainder of truncating division: sign of the dividend, |r| < |b| */
i128 ZM_rem(i128 a, i128 b){
  __CPROVER_assert(z_inrange(a) && z_inrange(b), "z model range: division operands stay below 2^100 in magnitude");
  i128 r = __CPROVER_uninterpreted_zrem(a, b);
  __CPROVER_assume((a == 0 || b == 1 || b == -1) ? r == 0 : zabs(a) < zabs(b) ? r == a : (a == b || a == -b) ? r == 0
                   : (z_inrange(r) && zabs(r) < zabs(b) && (r == 0 || ((r > 0) == (a > 0)))));
  return r;
}
#endif

void _ZN4ikos8z_numberC2Ev(Z *a){ ZSET(a, 0); }
void _ZN4ikos8z_numberC1Ev(Z *a){ ZSET(a, 0); }
void _ZN4ikos8z_numberC2El(Z *a, uint64_t n){ ZSET(a, (i128)(int64_t)n); }
void _ZN4ikos8z_numberC1El(Z *a, uint64_t n){ ZSET(a, (i128)(int64_t)n); }
void _ZN4ikos8z_numberC2ERKS0_(Z *a, Z *b){ ZSET(a, ZV(b)); }
void _ZN4ikos8z_numberC1ERKS0_(Z *a, Z *b){ ZSET(a, ZV(b)); }
void _ZN4ikos8z_numberC2EOS0_(Z *a, Z *b){ ZSET(a, ZV(b)); }
void _ZN4ikos8z_numberC1EOS0_(Z *a, Z *b){ ZSET(a, ZV(b)); }
Z *_ZN4ikos8z_numberaSERKS0_(Z *a, Z *b){ ZSET(a, ZV(b)); return a; }
Z *_ZN4ikos8z_numberaSEOS0_(Z *a, Z *b){ ZSET(a, ZV(b)); return a; }
void _ZN4ikos8z_numberD2Ev(Z *a){}
void _ZN4ikos8z_numberD1Ev(Z *a){}
void _ZN4ikos8z_number11from_uint64Em(Z *r, uint64_t n){ ZSET(r, (i128)(u128)n); }
uint64_t _ZNK4ikos8z_numbercvlEv(Z *a){
  __CPROVER_assert(ZV(a) >= -((i128)1 << 63) && ZV(a) < ((i128)1 << 63), "z_number -> int64 conversion of a value that fits (otherwise CRAB_ERROR)");
  return (uint64_t)(int64_t)ZV(a); }
unsigned char _ZNK4ikos8z_number10fits_int64Ev(Z *a){ return ZV(a) >= -((i128)1 << 63) && ZV(a) < ((i128)1 << 63); }
unsigned char _ZNK4ikos8z_numberltES0_(Z *a, Z *b){ return ZV(a) < ZV(b); }
unsigned char _ZNK4ikos8z_numbergtES0_(Z *a, Z *b){ return ZV(a) > ZV(b); }
unsigned char _ZNK4ikos8z_numberleES0_(Z *a, Z *b){ return ZV(a) <= ZV(b); }
unsigned char _ZNK4ikos8z_numbergeES0_(Z *a, Z *b){ return ZV(a) >= ZV(b); }
unsigned char _ZNK4ikos8z_numbereqES0_(Z *a, Z *b){ return ZV(a) == ZV(b); }
unsigned char _ZNK4ikos8z_numberneES0_(Z *a, Z *b){ return ZV(a) != ZV(b); }
void _ZNK4ikos8z_numberplES0_(Z *r, Z *a, Z *b){ i128 v = ZV(a) + ZV(b); RANGE(v); ZSET(r, v); }
void _ZNK4ikos8z_numbermiES0_(Z *r, Z *a, Z *b){ i128 v = ZV(a) - ZV(b); RANGE(v); ZSET(r, v); }
void _ZNK4ikos8z_numberngEv(Z *r, Z *a){ ZSET(r, -ZV(a)); }
void _ZNK4ikos8z_numbermlES0_(Z *r, Z *a, Z *b){ i128 v = ZM_mul(ZV(a), ZV(b)); RANGE(v); ZSET(r, v); }
void _ZNK4ikos8z_numberdvES0_(Z *r, Z *a, Z *b){
  __CPROVER_assert(ZV(b) != 0, "z_number division by zero (CRAB_ERROR in the real class)");
  __CPROVER_assume(ZV(b) != 0); ZSET(r, ZM_div(ZV(a), ZV(b))); }
void _ZNK4ikos8z_numberrmES0_(Z *r, Z *a, Z *b){
  __CPROVER_assert(ZV(b) != 0, "z_number remainder by zero (CRAB_ERROR in the real class)");
  __CPROVER_assume(ZV(b) != 0); ZSET(r, ZM_rem(ZV(a), ZV(b))); }
Z *_ZN4ikos8z_numberpLES0_(Z *a, Z *b){ i128 v = ZV(a) + ZV(b); RANGE(v); ZSET(a, v); return a; }
Z *_ZN4ikos8z_numbermIES0_(Z *a, Z *b){ i128 v = ZV(a) - ZV(b); RANGE(v); ZSET(a, v); return a; }
Z *_ZN4ikos8z_numbermLES0_(Z *a, Z *b){ i128 v = ZM_mul(ZV(a), ZV(b)); RANGE(v); ZSET(a, v); return a; }
Z *_ZN4ikos8z_numberdVES0_(Z *a, Z *b){
  __CPROVER_assert(ZV(b) != 0, "z_number division by zero (CRAB_ERROR in the real class)");
  __CPROVER_assume(ZV(b) != 0); ZSET(a, ZM_div(ZV(a), ZV(b))); return a; }
Z *_ZN4ikos8z_numberrMES0_(Z *a, Z *b){
  __CPROVER_assert(ZV(b) != 0, "z_number remainder by zero (CRAB_ERROR in the real class)");
  __CPROVER_assume(ZV(b) != 0); ZSET(a, ZM_rem(ZV(a), ZV(b))); return a; }
Z *_ZN4ikos8z_numberppEv(Z *a){ i128 v = ZV(a) + 1; RANGE(v); ZSET(a, v); return a; }
Z *_ZN4ikos8z_numbermmEv(Z *a){ i128 v = ZV(a) - 1; RANGE(v); ZSET(a, v); return a; }
void _ZN4ikos8z_numberppEi(Z *r, Z *a, uint32_t d){ ZSET(r, ZV(a)); i128 v = ZV(a) + 1; RANGE(v); ZSET(a, v); }
void _ZN4ikos8z_numbermmEi(Z *r, Z *a, uint32_t d){ ZSET(r, ZV(a)); i128 v = ZV(a) - 1; RANGE(v); ZSET(a, v); }
/* infinite-precision two's complement bitwise operations = 128-bit two's complement on in-range values */
void _ZNK4ikos8z_numberanES0_(Z *r, Z *a, Z *b){ ZSET(r, ZV(a) & ZV(b)); }
void _ZNK4ikos8z_numberorES0_(Z *r, Z *a, Z *b){ ZSET(r, ZV(a) | ZV(b)); }
void _ZNK4ikos8z_numbereoES0_(Z *r, Z *a, Z *b){ ZSET(r, ZV(a) ^ ZV(b)); }
/* shifts: the real class requires a shift amount that fits an unsigned long; the model additionally
 * requires the result to stay in range */
void _ZNK4ikos8z_numberlsES0_(Z *r, Z *a, Z *b){
  __CPROVER_assert(ZV(b) >= 0 && ZV(b) < 100, "z model: left shift amount in [0,100)");
  __CPROVER_assume(ZV(b) >= 0 && ZV(b) < 100);
  i128 m = (i128)1 << (unsigned)ZV(b);
  i128 v = ZV(a) * m; __CPROVER_assert(ZV(a) > -(ZLIM / m) && ZV(a) < (ZLIM / m), "z model range: value stays below 2^100 in magnitude"); ZSET(r, v); }
void _ZNK4ikos8z_numberrsES0_(Z *r, Z *a, Z *b){
  __CPROVER_assert(ZV(b) >= 0, "z model: right shift amount non-negative");
  __CPROVER_assume(ZV(b) >= 0);
  ZSET(r, ZV(b) >= 127 ? (ZV(a) < 0 ? -1 : 0) : (ZV(a) >> (unsigned)ZV(b))); }
/* fill_ones: smallest 2^k - 1 >= x for x > 0 (contract proved of the real function under C20); x <= 0: returns x */
void _ZNK4ikos8z_number9fill_onesEv(Z *r, Z *a){
  i128 x = ZV(a);
  if (x <= 0) { ZSET(r, x); return; }
  i128 y = x; y |= y >> 1; y |= y >> 2; y |= y >> 4; y |= y >> 8; y |= y >> 16; y |= y >> 32; y |= y >> 64;
  ZSET(r, y); }
