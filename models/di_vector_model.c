/* TRUSTED reference model of the GROWTH path of std::vector<ikos::interval<z_number>> (libstdc++, outside /repo) for unit
 * dis_interval:  vector::_M_realloc_insert(end(), x), the function push_back / emplace_back call when size() == capacity().
 * The real body (_M_check_len, allocate a larger block, copy / move every element, destroy the old elements, deallocate)
 * is dropped from the extracted unit (unit.json override.drop).  Measured with the real body: the normalisation of a list
 * of TWO intervals needs 88 000 symbolic-execution steps / 24 M clauses (3 reallocations, each with copy and destroy
 * loops over a vector whose length depends on data) and dis_interval::operator| on one-element operands does not finish
 * symbolic execution in 10 minutes.
 *
 * The model grows IN PLACE.  This is sound because of the allocation model of this unit (models/rt_fixedalloc_interval.c):
 * every block handed out by operator new has room for NEWCAP intervals whatever size was requested, so a vector whose
 * capacity() is exhausted still owns the slack of its block; a program cannot observe whether its elements moved.
 *   - empty vector without storage: a block is obtained from operator new (the model's, NEWCAP intervals);
 *   - the new element is copy-constructed at end() by the REAL copy constructor of ikos::interval<z_number> (for the
 *     rvalue overload as well: the source is a temporary that is destroyed afterwards, and z_number is plain data in the
 *     number model, so moving and copying are indistinguishable);
 *   - size() grows by one, capacity() becomes size();
 *   - exceeding NEWCAP elements is an OBLIGATION ("std::vector model: at most NEWCAP elements"), not an assumption.
 * Everything else of std::vector that dis_interval uses is the real libstdc++ code: constructors, copy construction,
 * destructor, move assignment, reserve, push_back / emplace_back themselves (the in-capacity path and the test that
 * selects the growth path), pop_back, clear, insert, operator[], size, begin / end, and std::sort. */
#include <stdint.h>
#include "unit_types.h"
typedef struct S_class_std__vector DIVEC;
typedef struct S_class_ikos__interval DIIV;
#ifndef NEWCAP
#define NEWCAP 4
#endif
#define DVB(v) ((v)->f0.f0.f0.f0)
#define DVE(v) ((v)->f0.f0.f0.f1)
#define DVC(v) ((v)->f0.f0.f0.f2)
void *_Znwm(unsigned long);
void _ZN4ikos8intervalINS_8z_numberEEC2ERKS2_(DIIV *self, DIIV *o);      /* real: interval(const interval &) */
static void di_vec_grow_append(DIVEC *v, DIIV *pos, DIIV *x){
  __CPROVER_assert(pos == DVE(v), "std::vector model: _M_realloc_insert is only used to append (push_back / emplace_back)");
  if (DVB(v) == 0) {
    DIIV *p = (DIIV *)_Znwm(sizeof(DIIV));
    DVB(v) = p; DVE(v) = p; }
  __CPROVER_assert(DVE(v) - DVB(v) < NEWCAP, "std::vector model: at most NEWCAP elements");
  _ZN4ikos8intervalINS_8z_numberEEC2ERKS2_(DVE(v), x);
  DVE(v) = DVE(v) + 1; DVC(v) = DVE(v); }
void _ZNSt6vectorIN4ikos8intervalINS0_8z_numberEEESaIS3_EE17_M_realloc_insertIJRKS3_EEEvN9__gnu_cxx17__normal_iteratorIPS3_S5_EEDpOT_(DIVEC *v, DIIV *pos, DIIV *x){ di_vec_grow_append(v, pos, x); }
void _ZNSt6vectorIN4ikos8intervalINS0_8z_numberEEESaIS3_EE17_M_realloc_insertIJS3_EEEvN9__gnu_cxx17__normal_iteratorIPS3_S5_EEDpOT_(DIVEC *v, DIIV *pos, DIIV *x){ di_vec_grow_append(v, pos, x); }
