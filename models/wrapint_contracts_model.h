/* shared by models/wrapint_contracts_model.c and the equivalence harness h_model_equiv of units/wrapped_interval/contracts.c */
#ifndef WRAPINT_CONTRACTS_MODEL_H
#define WRAPINT_CONTRACTS_MODEL_H
/* The predicates of units/wrapint/spec.h in a cheaper, equivalent form: with m = msk(width), 2^width (0 at width 64) is
 * m + 1, so ONE shifter per call serves w_ok of both operands and of the result (spec.h's w_ok builds two per wrapint).
 *   w_okm(x, m)  ==  w_ok(x)               given m == msk(x.f1)
 *   mk(w, m, v)  is the unique r with w_is(r, w, v)   given m == msk(w), v <= m
 * (the equivalence is checked by the harness h_model_equiv of units/wrapped_interval/contracts.c) */
static inline bool w_okm(W x, uint64_t m){ return x.f1 >= 1 && x.f1 <= 64 && x.f0 <= m && x.f2 == m + 1; }
static inline W mk(uint64_t w, uint64_t m, uint64_t v){ W r; r.f0 = v; r.f1 = w; r.f2 = m + 1; return r; }
#endif
