/* TRUSTED reference model of std::vector<wrapped_interval<z_number>>::push_back / emplace_back (libstdc++, outside /repo).
 * Their real bodies (_M_realloc_insert: _M_check_len, allocate, relocate loops, deallocate) are dropped from the
 * extracted unit wrapped_interval (unit.json override.drop): with them neither of the SAT back ends nor cvc5 decides
 * even signed_split at width 2 (measured, > 8 min each).  The model appends into a buffer of WI_VEC_CAP elements that
 * is allocated by the first append; exceeding the capacity is an OBLIGATION (the split vectors of wrapped_interval hold
 * at most 4 elements).  Everything else of std::vector that the class uses -- the constructor, destructor (which frees
 * the buffer with the real _M_deallocate / operator delete), size(), operator[], begin(), end(), the iterators -- is the
 * real libstdc++ code.  Elements are copied bitwise (wrapped_interval is trivially copyable). */
#include <stdlib.h>
#include "unit_types.h"
typedef struct S_class_std__vector VEC;
typedef struct S_class_crab__domains__wrapped_interval WIV;
#ifndef WI_VEC_CAP
#define WI_VEC_CAP 4
#endif
#define VB(v) ((v)->f0.f0.f0.f0)
#define VE(v) ((v)->f0.f0.f0.f1)
#define VC(v) ((v)->f0.f0.f0.f2)
static void wi_vec_append(VEC *v, WIV *x){
  if (VB(v) == 0) {
    WIV *p = malloc(WI_VEC_CAP * sizeof(WIV)); __CPROVER_assume(p != 0);
    VB(v) = p; VE(v) = p; VC(v) = p + WI_VEC_CAP; }
  __CPROVER_assert(VE(v) != VC(v), "std::vector model: the vector never holds more than WI_VEC_CAP elements");
  __CPROVER_assume(VE(v) != VC(v));
  WIV e = *x; *VE(v) = e; VE(v) = VE(v) + 1; }
void _ZNSt6vectorIN4crab7domains16wrapped_intervalIN4ikos8z_numberEEESaIS5_EE9push_backERKS5_(VEC *v, WIV *x){ wi_vec_append(v, x); }
void _ZNSt6vectorIN4crab7domains16wrapped_intervalIN4ikos8z_numberEEESaIS5_EE9push_backEOS5_(VEC *v, WIV *x){ wi_vec_append(v, x); }
void _ZNSt6vectorIN4crab7domains16wrapped_intervalIN4ikos8z_numberEEESaIS5_EE12emplace_backIJS5_EEEvDpOT_(VEC *v, WIV *x){ wi_vec_append(v, x); }
